"""Deterministic scheduler: real OS threads, exactly one of which runs at a time.

Every sim thread owns a semaphore (its baton).  The running thread offers the
baton at *yield points* (lock acquire, condition wait, thread start/exit, join,
future wait/submit, sleep, every SimFS operation, optionally traced lines).  A
seeded strategy then decides who runs next; each decision with more than one
candidate is appended to ``Sim.trace`` and that list *is* the replay schedule.

Nothing in here reads a real clock or an unseeded PRNG.
"""
import random
import threading as _rt
import _thread
from collections import Counter

EPOCH = 1_700_000_000.0


class SimAbort(BaseException):
    """Unwinds a sim thread (process death, deadlock, step cap, replay divergence).

    BaseException on purpose: strax catches Exception / GeneratorExit only, so no
    layer of the system under test can 'handle' the death of its process.
    """


class SimCrash(SimAbort):
    pass


class HarnessError(Exception):
    """A problem of the simulator or harness itself; never a verdict."""


class HarnessEscape(HarnessError):
    """Code under test reached an un-simulated source of nondeterminism."""


class ReplayDiverged(HarnessError):
    pass


# --------------------------------------------------------------------------
# strategies: pick(sim, me, cands) -> SimThread ; cands sorted by tid, len > 1
# --------------------------------------------------------------------------
class Strategy:
    name = "random"

    def __init__(self, rng):
        self.rng = rng

    def pick(self, sim, me, cands):
        return cands[self.rng.randrange(len(cands))]

    def describe(self):
        return self.name


class Sticky(Strategy):
    def __init__(self, rng, p):
        super().__init__(rng)
        self.p = p
        self.name = f"sticky({p})"

    def pick(self, sim, me, cands):
        if me in cands and self.rng.random() < self.p:
            return me
        return cands[self.rng.randrange(len(cands))]


class PCT(Strategy):
    """Probabilistic concurrency testing: random priorities, d-1 change points."""

    def __init__(self, rng, depth, est_steps):
        super().__init__(rng)
        self.depth = depth
        self.name = f"pct({depth})"
        self.prio = {}
        self.change = sorted(rng.randrange(1, max(2, est_steps)) for _ in range(depth - 1))
        self.low = 0

    def pick(self, sim, me, cands):
        for t in cands:
            if t.tid not in self.prio:
                self.prio[t.tid] = self.depth + self.rng.random()
        while self.change and sim.steps >= self.change[0]:
            self.change.pop(0)
            if me is not None:
                self.low += 1
                self.prio[me.tid] = self.depth - self.low - 1.0  # below every initial priority
        return max(cands, key=lambda t: (self.prio[t.tid], -t.tid))


class Starve(Strategy):
    """A designated class of threads only runs when nothing else can (slow node)."""

    def __init__(self, rng, pattern, p=0.9):
        super().__init__(rng)
        self.pattern = pattern
        self.p = p
        self.name = f"starve({pattern})"

    def pick(self, sim, me, cands):
        others = [t for t in cands if self.pattern not in (t.name or "")]
        if others and len(others) < len(cands) and self.rng.random() < self.p:
            cands = others
        return cands[self.rng.randrange(len(cands))]


def make_strategy(rng, spec, est_steps=400):
    """spec: 'random' | 'sticky:0.8' | 'pct:2' | 'starve:save'."""
    kind, _, arg = spec.partition(":")
    if kind == "random":
        return Strategy(rng)
    if kind == "sticky":
        return Sticky(rng, float(arg or 0.8))
    if kind == "pct":
        return PCT(rng, int(arg or 2), est_steps)
    if kind == "starve":
        return Starve(rng, arg or "save")
    raise ValueError(spec)


def swarm_strategy_spec(rng, starve_names=("save", "read", "main", "build", "load", "pool")):
    r = rng.random()
    if r < 0.35:
        return "random"
    if r < 0.65:
        return "sticky:" + rng.choice(["0.5", "0.8", "0.95"])
    if r < 0.9:
        return "pct:" + rng.choice(["1", "2", "3"])
    return "starve:" + rng.choice(list(starve_names))


# --------------------------------------------------------------------------
# Real threads are expensive to create (and creation does not scale across
# processes in this sandbox), so sim threads borrow long-lived carrier threads.
_FREE = []


def _reset_carriers():
    del _FREE[:]


import os as _os_mod
_os_mod.register_at_fork(after_in_child=_reset_carriers)


class _Carrier:
    def __init__(self):
        self.go = _thread.allocate_lock()
        self.go.acquire()
        self.job = None
        self.t = _rt.Thread(target=self._loop, name="dst-carrier", daemon=True)
        self.t.start()

    def _loop(self):
        while True:
            self.go.acquire()
            job, self.job = self.job, None
            try:
                job()
            finally:
                _FREE.append(self)

    @staticmethod
    def run(job):
        try:
            c = _FREE.pop()
        except IndexError:
            c = _Carrier()
        c.job = job
        c.go.release()
        return c


class SimThread:
    def __init__(self, sim, target=None, name=None, args=(), kwargs=None, daemon=None):
        self.sim = sim
        self.target = target
        self.name = name
        self.args = args
        self.kwargs = kwargs or {}
        self.daemon = daemon
        self.tid = None
        self.baton = _thread.allocate_lock()   # binary semaphore, initially taken
        self.baton.acquire()
        self.started = False
        self.finished = False
        self.blocked_on = None  # None | (kind, obj)
        self.deadline = None
        self.timed_out = False
        self.exc = None
        self.real = None

    # -- threading.Thread API subset -------------------------------------
    def start(self):
        sim = self.sim
        if self.started:
            raise RuntimeError("threads can only be started once")
        if sim.aborting:
            raise sim.abort_exc()
        self.tid = len(sim.threads)
        if self.name is None:
            self.name = f"SimThread-{self.tid}"
        sim.threads.append(self)
        self.started = True
        self.real = _Carrier.run(self._run)
        sim.yield_point("start")

    def _run(self):
        sim = self.sim
        self.baton.acquire()
        try:
            if not sim.aborting:
                self.target(*self.args, **self.kwargs)
        except SimAbort:
            pass
        except BaseException as e:  # noqa: recorded, like threading.excepthook
            self.exc = e
            sim.thread_excs.append((self.name, e))
        self.finished = True
        sim._wake(lambda t: t.blocked_on is not None and t.blocked_on[0] == "join"
                  and t.blocked_on[1] is self)
        sim._thread_done(self)

    def join(self, timeout=None):
        sim = self.sim
        me = sim.current
        if me is self:
            raise RuntimeError("cannot join current thread")
        if not self.started:
            raise RuntimeError("cannot join thread before it is started")
        if self.finished:
            return
        sim.block(("join", self), timeout)

    def is_alive(self):
        return self.started and not self.finished

    def getName(self):
        return self.name

    @property
    def ident(self):
        return self.tid

    def __repr__(self):
        return f"<SimThread {self.tid} {self.name}>"


class Sim:
    def __init__(self, seed=0, strategy="random", forced=None, strict=False,
                 max_steps=200_000, est_steps=400, preempt_q=0.0):
        self.seed = seed
        self.rng = random.Random((seed * 0x9E3779B97F4A7C15 + 0x5CED) & (2**64 - 1))
        self.strategy_spec = strategy
        self.strategy = make_strategy(self.rng, strategy, est_steps)
        self.threads = []
        self.current = None
        self.now = EPOCH
        self.steps = 0
        self.decisions = 0
        self.trace = []
        self.forced = list(forced) if forced is not None else None
        self.fpos = 0
        self.strict = strict
        self.max_steps = max_steps
        self.aborting = None          # None | 'crash' | 'deadlock' | 'stepcap' | 'diverged'
        self.abort_detail = None
        self.hangs = []               # progress was only possible by firing a timeout
        self.timeouts_fired = 0
        self.sleep_jumps = 0
        self.step_hooks = []
        self.counters = Counter()
        self.thread_excs = []
        self.preempt_q = preempt_q
        self.quiescent_hits = 0
        self.fs = None
        self.on_hang = None
        self.lost_wakeups = []
        self._main = None

    # ------------------------------------------------------------------
    def abort_exc(self):
        return SimCrash() if self.aborting == "crash" else SimAbort(self.aborting)

    def register_main(self, name="main"):
        t = SimThread(self, name=name)
        t.tid = 0
        t.started = True
        t.real = _rt.current_thread()
        self.threads.append(t)
        self.current = t
        self._main = t
        return t

    # ------------------------------------------------------------------
    def runnable(self):
        return [t for t in self.threads if t.started and not t.finished and t.blocked_on is None]

    def live_threads(self):
        return [t for t in self.threads[1:] if t.started and not t.finished]

    def _wake(self, pred):
        for t in self.threads:
            if t.started and not t.finished and pred(t):
                t.blocked_on = None
                t.deadline = None

    def block(self, reason, timeout=None):
        """Block the current thread until woken or (simulated) timeout.

        Returns True if woken, False on timeout.
        """
        if self.aborting:
            raise self.abort_exc()
        me = self.current
        me.blocked_on = reason
        me.timed_out = False
        me.deadline = None if timeout is None else self.now + max(0.0, float(timeout))
        self._switch(me)
        if self.aborting:
            me.blocked_on = None
            raise self.abort_exc()
        return not me.timed_out

    def yield_point(self, kind=""):
        if self.aborting:
            raise self.abort_exc()
        self._switch(self.current)
        if self.aborting:
            raise self.abort_exc()

    def choose(self, n, tag=""):
        """A recorded non-thread choice among n alternatives."""
        if n <= 1:
            return 0
        if self.forced is not None and self.fpos < len(self.forced):
            v = self.forced[self.fpos]
            self.fpos += 1
            if not (0 <= v < n):
                if self.strict:
                    self._set_abort("diverged", f"choice {v} out of range {n} ({tag})")
                    raise self.abort_exc()
                v = 0
        elif self.forced is not None:
            v = 0
        else:
            v = self.rng.randrange(n)
        self.trace.append(v)
        return v

    # ------------------------------------------------------------------
    def _set_abort(self, kind, detail=None):
        if not self.aborting:
            self.aborting = kind
            self.abort_detail = detail

    def crash(self):
        self._set_abort("crash")

    def describe_blocked(self):
        out = []
        for t in self.threads:
            if t.started and not t.finished:
                b = t.blocked_on
                if b is None:
                    out.append(f"{t.name}:runnable")
                else:
                    what = getattr(b[1], "sim_name", None) or type(b[1]).__name__
                    dl = "" if t.deadline is None else f"@+{t.deadline - self.now:.0f}s"
                    out.append(f"{t.name}:{b[0]}({what}){dl}")
        return out

    def _no_runnable(self, me):
        """Nothing can run: quiescence hook, timers, hang, or deadlock.  Returns candidates."""
        live = [t for t in self.threads if t.started and not t.finished]
        parked = [t for t in live if t.blocked_on is not None and t.blocked_on[0] == "quiesce"]
        self._check_lost_wakeups(live)
        if parked:
            self.quiescent_hits += 1
            t = parked[0]
            t.blocked_on = None
            return [t]
        timed = [t for t in live if t.deadline is not None]
        return self._fire_timer(live, timed)

    def _check_lost_wakeups(self, live):
        # Lost wake-up detector: nothing can run, so the state is quiescent; a thread parked in
        # wait_for(pred) whose predicate already holds was never notified (it could only proceed
        # when its timeout expires).
        if not self.lost_wakeups:
            for t in live:
                b = t.blocked_on
                if b is not None and b[0] == "cond" and len(b) > 2 and b[2] is not None:
                    try:
                        holds = bool(b[2]())
                    except Exception:
                        holds = False
                    if holds:
                        self.lost_wakeups.append({"step": self.steps, "thread": t.name,
                                                  "predicate": getattr(b[2], "__qualname__", "?"),
                                                  "state": self.describe_blocked()})
                        break

    def _fire_timer(self, live, timed):
        if not timed:
            self._set_abort("deadlock", self.describe_blocked())
            return []
        t = min(timed, key=lambda t: (t.deadline, t.tid))
        sleepers = [x for x in timed if x.blocked_on[0] == "sleep"]
        if t.blocked_on[0] == "sleep":
            self.sleep_jumps += 1
        else:
            self.timeouts_fired += 1
            if not sleepers:
                self.hangs.append({"step": self.steps, "fired": t.name,
                                   "waiting_on": t.blocked_on[0], "state": self.describe_blocked()})
                if self.on_hang is not None:
                    self.on_hang(self)
        self.now = max(self.now, t.deadline)
        t.timed_out = True
        t.blocked_on = None
        t.deadline = None
        return [t]

    def _pick(self, me, cands):
        if len(cands) == 1:
            return cands[0]
        self.decisions += 1
        if self.forced is not None:
            nxt = None
            if self.fpos < len(self.forced):
                want = self.forced[self.fpos]
                self.fpos += 1
                if want >= 0:
                    for t in cands:
                        if t.tid == want:
                            nxt = t
                            break
                    if nxt is None and self.strict:
                        self._set_abort("diverged",
                                        f"step {self.steps}: wanted tid {want}, runnable "
                                        f"{[t.tid for t in cands]}")
                        return None
            if nxt is None:
                nxt = me if me in cands else cands[0]
        else:
            nxt = self.strategy.pick(self, me if (me and not me.finished) else None, cands)
        self.trace.append(nxt.tid)
        return nxt

    def _switch(self, me):
        self.steps += 1
        if self.steps > self.max_steps:
            self._set_abort("stepcap", self.steps)
        if self.step_hooks and not self.aborting:
            for h in self.step_hooks:
                h(self)
        nxt = None
        if not self.aborting:
            cands = self.runnable()
            if not cands:
                cands = self._no_runnable(me)
            if cands:
                nxt = self._pick(me, cands)
        if self.aborting or nxt is None:
            # hand control to the main thread so that it unwinds and tears the rest down
            main = self._main
            if me is main:
                return
            main.blocked_on = None
            main.deadline = None
            self.current = main
            main.baton.release()
            if not me.finished:
                me.baton.acquire()
            return
        if nxt is me:
            return
        self.current = nxt
        nxt.baton.release()
        if not me.finished:
            me.baton.acquire()

    def _thread_done(self, me):
        if self.aborting:
            main = self._main
            self.current = main
            main.baton.release()
            return
        self._switch(me)

    # ------------------------------------------------------------------
    def teardown(self):
        """Main thread only.  Unwind every remaining sim thread (abort mode)."""
        main = self._main
        assert self.current is main
        if not self.aborting:
            self._set_abort("teardown")
        guard = 0
        while True:
            rest = [t for t in self.threads[1:] if t.started and not t.finished]
            if not rest:
                break
            guard += 1
            if guard > 10 * len(self.threads) + 100:
                raise HarnessError(f"teardown does not converge: {self.describe_blocked()}")
            t = rest[0]
            t.blocked_on = None
            t.deadline = None
            self.current = t
            t.baton.release()
            main.baton.acquire()
        self.current = main

    def drain(self):
        """Main thread only: let all other threads run until they finish (or hang)."""
        if self.aborting:
            return
        while self.live_threads():
            if self.aborting:
                return
            t = self.live_threads()[0]
            try:
                self.block(("join", t), None)
            except SimAbort:
                return

    def park_until_quiescent(self):
        """Main thread: sleep until no other thread can run (without firing timeouts)."""
        self.block(("quiesce", None), None)

    def sleep(self, dt):
        if dt <= 0:
            self.yield_point("sleep0")
            return
        self.block(("sleep", None), dt)

    def run_main(self, fn):
        """Run fn() as sim thread 0.  Returns ('ok', value) | ('exc', e) | ('abort', kind)."""
        try:
            v = fn()
            out = ("ok", v)
        except SimAbort:
            out = ("abort", self.aborting)
        except HarnessError:
            raise
        except Exception as e:
            out = ("exc", e)
        if self.aborting and out[0] != "abort":
            out = ("abort", self.aborting)
        return out

    def finish(self):
        """Tear down whatever is left.  Returns names of threads that were still alive."""
        alive = [t.name for t in self.live_threads()]
        if alive or self.aborting:
            self.teardown()
        return alive


# --------------------------------------------------------------------------
# synchronisation primitives (the subset strax uses, plus a little slack)
# --------------------------------------------------------------------------
class SimRLock:
    reentrant = True

    def __init__(self, sim, name=None):
        self.sim = sim
        self.owner = None
        self.count = 0
        self.sim_name = name

    def acquire(self, blocking=True, timeout=-1):
        sim = self.sim
        me = sim.current
        if self.owner is me and self.reentrant:
            self.count += 1
            return True
        if sim.aborting:
            raise sim.abort_exc()
        sim.yield_point("acquire")
        while self.owner is not None:
            if not blocking:
                return False
            ok = sim.block(("lock", self), None if timeout is None or timeout < 0 else timeout)
            if not ok:
                return False
        self.owner = me
        self.count = 1
        return True

    def release(self):
        sim = self.sim
        me = sim.current
        if sim.aborting:
            if self.owner is me:
                self.owner = None
                self.count = 0
            return
        if self.owner is not me:
            raise RuntimeError("cannot release un-acquired lock")
        self.count -= 1
        if self.count == 0:
            self.owner = None
            sim._wake(lambda t: t.blocked_on is not None and t.blocked_on[0] == "lock"
                      and t.blocked_on[1] is self)

    def __enter__(self):
        self.acquire()
        return True

    def __exit__(self, *a):
        self.release()

    def locked(self):
        return self.owner is not None

    # used by SimCondition
    def _release_save(self):
        c = self.count
        self.count = 0
        self.owner = None
        self.sim._wake(lambda t: t.blocked_on is not None and t.blocked_on[0] == "lock"
                       and t.blocked_on[1] is self)
        return c

    def _acquire_restore(self, c):
        sim = self.sim
        me = sim.current
        while self.owner is not None:
            sim.block(("lock", self), None)
        self.owner = me
        self.count = c

    def __repr__(self):
        o = self.owner.name if self.owner else None
        return f"<SimRLock owner={o} count={self.count}>"


class SimLock(SimRLock):
    reentrant = False


class SimCondition:
    def __init__(self, sim, lock=None, name=None):
        self.sim = sim
        self.lock = lock if lock is not None else SimRLock(sim)
        self.sim_name = name
        self.acquire = self.lock.acquire
        self.release = self.lock.release

    def __enter__(self):
        return self.lock.__enter__()

    def __exit__(self, *a):
        return self.lock.__exit__(*a)

    def wait(self, timeout=None, _pred=None):
        sim = self.sim
        me = sim.current
        if self.lock.owner is not me:
            raise RuntimeError("cannot wait on un-acquired lock")
        if sim.aborting:
            raise sim.abort_exc()
        c = self.lock._release_save()
        try:
            woken = sim.block(("cond", self, _pred), timeout)
        finally:
            if not sim.aborting:
                self.lock._acquire_restore(c)
        return woken

    def wait_for(self, predicate, timeout=None):
        sim = self.sim
        end = None if timeout is None else sim.now + timeout
        result = predicate()
        while not result:
            if end is not None:
                left = end - sim.now
                if left <= 0:
                    break
                self.wait(left, _pred=predicate)
            else:
                self.wait(None, _pred=predicate)
            result = predicate()
        return result

    def notify(self, n=1):
        sim = self.sim
        if self.lock.owner is not sim.current and not sim.aborting:
            raise RuntimeError("cannot notify on un-acquired lock")
        k = 0
        for t in sim.threads:
            if k >= n:
                break
            if (t.started and not t.finished and t.blocked_on is not None
                    and t.blocked_on[0] == "cond" and t.blocked_on[1] is self):
                t.blocked_on = None
                t.deadline = None
                k += 1

    def notify_all(self):
        self.notify(1 << 30)


class SimEvent:
    def __init__(self, sim):
        self.sim = sim
        self._flag = False

    def is_set(self):
        return self._flag

    def set(self):
        self._flag = True
        self.sim._wake(lambda t: t.blocked_on is not None and t.blocked_on[0] == "event"
                       and t.blocked_on[1] is self)

    def clear(self):
        self._flag = False

    def wait(self, timeout=None):
        if self._flag:
            return True
        self.sim.block(("event", self), timeout)
        return self._flag
