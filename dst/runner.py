"""Campaign driver: seeded runs across processes, evidence, replay files, minimisation,
known-findings matching and exit codes.

exit 0  property held on everything explored (KNOWN-FINDING lines possible)
exit 1  VIOLATION property=<id> replay=<path>
exit 2  HARNESS-ERROR (never a verdict)
"""
import argparse
import faulthandler
import gc
import importlib
import json
import multiprocessing as mp
import os
import re
import subprocess
import sys
import time
import traceback
from collections import Counter
from concurrent.futures import ProcessPoolExecutor, as_completed

from . import sched as S
from .core import derive, jhash

VERIF = os.path.dirname(os.path.dirname(os.path.abspath(__file__)))
# DST_OUT_DIR: evidence and replays of trial runs against patched scratch copies go elsewhere (tools/try_patch.sh)
_OUT = os.environ.get("DST_OUT_DIR") or VERIF
EVIDENCE_DIR = os.path.join(_OUT, "evidence")
REPLAY_DIR = os.path.join(_OUT, "replays")
KNOWN = os.path.join(VERIF, "known_findings.json")

RUN_WATCHDOG_S = 600


def load_check(prop):
    return importlib.import_module(f"dst.checks.{prop.lower()}")


def run_seed(base, prop, i):
    return derive(base, prop, i) & ((1 << 53) - 1)


# ---------------------------------------------------------------------------
class Agg:
    def __init__(self):
        self.n = 0
        self.verdicts = Counter()
        self.traces = set()
        self.states = set()
        self.counters = Counter()
        self.probes = Counter()
        self.faults = Counter()
        self.strategies = Counter()
        self.samples = []
        self.violations = []
        self.n_violations = 0
        self.steps = 0
        self.decisions = 0
        self.sim_time = 0.0
        self.max_threads = 0
        self.hangs = 0
        self.timeouts = 0
        self.extra = Counter()
        self.first_seed = None
        self.skipped = 0
        self.sub_evals = 0

    def add(self, idx, seed, r):
        self.n += 1
        self.verdicts[r["verdict"]] += 1
        st = r.get("stats", {})
        self.steps += st.get("steps", 0)
        self.decisions += st.get("decisions", 0)
        self.sim_time += st.get("sim_time", 0.0)
        self.max_threads = max(self.max_threads, st.get("threads", 0))
        self.hangs += st.get("hangs", 0)
        self.timeouts += st.get("timeouts_fired", 0)
        self.sub_evals += r.get("sub_evaluations", 1)
        for k, v in st.get("counters", {}).items():
            self.counters[k] += v
        for k in st.get("faults_fired", []):
            self.faults[k] += 1
        for k, v in r.get("faults", {}).items():
            self.faults[k] += v
        for k, v in r.get("probes", {}).items():
            if k.startswith("max_"):
                self.probes[k] = max(self.probes[k], v)
            else:
                self.probes[k] += v
        if r.get("nontrivial"):
            th = r.get("trace_hash")
            if isinstance(th, (set, list, tuple)):
                self.traces.update(th)
            elif th is not None:
                self.traces.add(th)
        self.states.update(r.get("states", ()))
        self.strategies[r.get("strategy", "?")] += 1
        if len(self.samples) < 3 and r.get("sample") is not None:
            self.samples.append({"run": idx, "seed": seed, "verdict": r["verdict"], **r["sample"]})
        if r["verdict"] == "violation":
            vs = r.get("violations") or [{"vio": r["vio"], "replay": r["replay"]}]
            for v in vs:
                self.n_violations += 1
                if len(self.violations) < 40:
                    self.violations.append({"run": idx, "seed": seed, "vio": v["vio"], "replay": v["replay"]})

    def merge(self, o):
        self.n += o.n
        self.verdicts.update(o.verdicts)
        self.traces |= o.traces
        self.states |= o.states
        self.counters.update(o.counters)
        for k, v in o.probes.items():
            if k.startswith("max_"):
                self.probes[k] = max(self.probes[k], v)
            else:
                self.probes[k] += v
        self.faults.update(o.faults)
        self.strategies.update(o.strategies)
        self.samples = sorted(self.samples + o.samples, key=lambda s: s["run"])[:3]
        self.violations = sorted(self.violations + o.violations, key=lambda v: v["run"])[:40]
        self.n_violations += o.n_violations
        self.steps += o.steps
        self.decisions += o.decisions
        self.sim_time += o.sim_time
        self.max_threads = max(self.max_threads, o.max_threads)
        self.hangs += o.hangs
        self.timeouts += o.timeouts
        self.skipped += o.skipped
        self.sub_evals += o.sub_evals


_MOD = None


def _run_batch(prop, tier, base_seed, i0, cnt, deadline):
    faulthandler.enable()
    mod = _MOD or load_check(prop)
    agg = Agg()
    for i in range(i0, i0 + cnt):
        if time.time() > deadline:
            agg.skipped += (i0 + cnt - i)
            break
        seed = run_seed(base_seed, prop, i)
        faulthandler.dump_traceback_later(RUN_WATCHDOG_S, exit=True)
        try:
            r = mod.run_one(seed, tier)
        finally:
            faulthandler.cancel_dump_traceback_later()
        agg.add(i, seed, r)
        if (i - i0) % 100 == 99:
            gc.collect()
    gc.collect()
    return agg


def _warm(mod):
    import strax  # noqa
    if hasattr(mod, "warm"):
        mod.warm()
    gc.collect()
    gc.freeze()


def campaign(prop, tier, base_seed, n_runs, procs, budget_s, batch=None):
    global _MOD
    mod = load_check(prop)
    _MOD = mod
    _warm(mod)
    t0 = time.time()
    deadline = t0 + budget_s
    if batch is None:
        batch = max(1, min(getattr(mod, "BATCH", 250), n_runs // (procs * 6) or 1))
    jobs = [(i, min(batch, n_runs - i)) for i in range(0, n_runs, batch)]
    agg = Agg()
    ctx = mp.get_context("fork")
    with ProcessPoolExecutor(max_workers=procs, mp_context=ctx) as pool:
        futs = [pool.submit(_run_batch, prop, tier, base_seed, i0, c, deadline) for i0, c in jobs]
        for f in as_completed(futs):
            agg.merge(f.result())
    return mod, agg, time.time() - t0


# ---------------------------------------------------------------------------
def load_known(prop):
    if not os.path.exists(KNOWN):
        return []
    with open(KNOWN) as f:
        data = json.load(f)
    return [k for k in data.get("findings", []) if k["property"] == prop]


def match_known(known, vio):
    text = f"{vio['class']}: {vio['signature']}"
    for k in known:
        if k.get("status") != "known":
            continue
        if re.search(k["match"], text) and (not k.get("detail_match")
                                             or re.search(k["detail_match"], vio.get("detail", ""))):
            return k
    return None


def same_violation(a, b):
    return a is not None and b is not None and a["class"] == b["class"] and a["signature"] == b["signature"]


def minimise(mod, seed, tier, rep, vio, budget_runs=160, budget_s=90):
    """Shrink workload (generator-level), then faults, then the schedule."""
    t0 = time.time()
    runs = 0
    orig = {"schedule_len": len(rep.get("schedule", [])),
            "workload_size": len(json.dumps(rep.get("workload"), default=str))}

    def attempt(r, lenient=True):
        nonlocal runs
        runs += 1
        try:
            res = mod.run_one(seed, tier, replay=r, lenient=lenient)
        except S.HarnessError:
            return None
        if res["verdict"] == "violation":
            for v in (res.get("violations") or [{"vio": res["vio"], "replay": res["replay"]}]):
                if same_violation(v["vio"], vio):
                    return v["replay"]
        return None

    best = rep
    # 1. workload
    if hasattr(mod, "shrink"):
        progress = True
        while progress and runs < budget_runs and time.time() - t0 < budget_s:
            progress = False
            for cand in mod.shrink(best["workload"]):
                if runs >= budget_runs or time.time() - t0 > budget_s:
                    break
                got = None
                for sched in (best.get("schedule", []), None):
                    r = dict(best, workload=cand)
                    if sched is None:
                        r["schedule"] = []
                    got = attempt(r)
                    if got:
                        break
                if got:
                    best = got
                    progress = True
                    break
    # 2. faults (checks that carry a fault list)
    if best.get("faults") and hasattr(mod, "shrink_faults"):
        for cand in mod.shrink_faults(best):
            if runs >= budget_runs or time.time() - t0 > budget_s:
                break
            got = attempt(cand)
            if got:
                best = got
    # 3. schedule: replace recorded switches by the default policy (-1) in shrinking blocks
    sched = list(best.get("schedule", []))
    n = len(sched)
    size = max(1, n // 2)
    while size >= 1 and n and runs < budget_runs and time.time() - t0 < budget_s:
        i = 0
        while i < len(sched) and runs < budget_runs and time.time() - t0 < budget_s:
            if all(x == -1 for x in sched[i:i + size]):
                i += size
                continue
            cand = sched[:i] + [-1] * len(sched[i:i + size]) + sched[i + size:]
            got = attempt(dict(best, schedule=cand))
            if got:
                sched = cand
            i += size
        size //= 2
    final = attempt(dict(best, schedule=sched))
    if final:
        best = final   # actual recorded choices of the minimised execution
    strict = attempt(best, lenient=False)
    if strict is None:
        best = rep
    best = dict(best)
    best["minimised"] = strict is not None
    best["original_sizes"] = orig
    best["minimise_runs"] = runs
    return best


def strax_rev():
    try:
        rev = subprocess.run(["git", "-C", "/repo", "rev-parse", "--short", "HEAD"],
                             capture_output=True, text=True, timeout=20).stdout.strip()
        dirty = subprocess.run(["git", "-C", "/repo", "status", "--porcelain", "--untracked-files=no"],
                               capture_output=True, text=True, timeout=20).stdout.strip()
        return rev + ("+dirty" if dirty else "")
    except Exception:
        return "unknown"


def write_replay(prop, seed, tier, rep, vio):
    os.makedirs(REPLAY_DIR, exist_ok=True)
    path = os.path.join(REPLAY_DIR, f"{prop}-{seed}-{jhash(vio['signature'])[:6]}.json")
    doc = {"property": prop, "seed": seed, "tier": tier, "strax_rev": strax_rev(),
           "violation": vio, **rep}
    with open(path, "w") as f:
        json.dump(doc, f, indent=1, default=str)
    return path


def verify_replay_fresh(prop, path):
    """Replay in a fresh interpreter; True iff the same violation reproduces."""
    try:
        p = subprocess.run([sys.executable, os.path.join(VERIF, "check"), prop, "--replay", path],
                           capture_output=True, text=True, timeout=600,
                           env=dict(os.environ, PYTHONHASHSEED="0"))
    except subprocess.TimeoutExpired:
        return False, "timeout"
    return p.returncode == 1 and "REPRODUCED" in p.stdout, (p.stdout + p.stderr)[-2000:]


def do_replay(prop, path):
    with open(path) as f:
        doc = json.load(f)
    mod = load_check(prop)
    _warm(mod)
    try:
        res = mod.run_one(doc["seed"], doc.get("tier", "quick"), replay=doc, lenient=False)
    except S.ReplayDiverged as e:
        # the code under test no longer takes the recorded path (it was changed since the recording): follow the
        # recorded schedule as far as it applies, then the default policy, and judge what happens
        print(f"recorded schedule no longer applies ({e}); re-running it leniently")
        res = mod.run_one(doc["seed"], doc.get("tier", "quick"), replay=doc, lenient=True)
    want = doc.get("violation")
    vs = res.get("violations") or ([{"vio": res["vio"]}] if res.get("vio") else [])
    for v in vs:
        if want is None or same_violation(v["vio"], want):
            print(f"REPRODUCED class={v['vio']['class']} signature={v['vio']['signature']}")
            print(f"detail: {v['vio'].get('detail', '')[:1500]}")
            print(f"VIOLATION property={prop} replay={path}")
            return 1
    if vs:
        print(f"DIFFERENT violation on replay: {vs[0]['vio']}")
        return 1
    print(f"NOT-REPRODUCED verdict={res['verdict']}")
    return 0


# ---------------------------------------------------------------------------
def write_evidence(prop, mod, tier, base_seed, agg, wall, n_target, budget_s, reported, known_seen,
                   harness_errors):
    os.makedirs(EVIDENCE_DIR, exist_ok=True)
    cov = {
        "evaluations": agg.n,
        "distinct_nontrivial": len(agg.traces),
        "rule": getattr(mod, "RULE", "") or (
            "one evaluation = one seeded simulated execution (workload, schedule and faults derived from "
            "VERIF_SEED and the run index); non-trivial = at least two sim threads and at least one "
            "scheduling decision with more than one runnable candidate; distinct = different hash of "
            "(workload, recorded schedule trace)"),
        "samples": agg.samples,
        "executions": agg.sub_evals,
        "runs_requested": n_target,
        "runs_skipped_by_budget": agg.skipped,
        "budget_s": budget_s,
        "runs_per_hour": int(agg.n / wall * 3600) if wall > 0 else 0,
        "executions_per_hour": int(agg.sub_evals / wall * 3600) if wall > 0 else 0,
        "seeds": {"base": base_seed, "derivation": "splitmix64(VERIF_SEED, property, run index)",
                  "run_indices": [0, n_target - 1]},
        "sim_time_s": round(agg.sim_time, 3),
        "scheduler_steps": agg.steps,
        "scheduling_decisions": agg.decisions,
        "max_threads": agg.max_threads,
        "distinct_states": len(agg.states),
        "distinct_states_measure": getattr(mod, "STATE_MEASURE",
                                           "hash of abstract state vectors sampled at every scheduler step"),
        "faults_fired": dict(agg.faults),
        "probes": dict(agg.probes),
        "counters": dict(agg.counters),
        "strategies": dict(agg.strategies),
        "verdicts": dict(agg.verdicts),
        "hangs_seen": agg.hangs,
        "timeouts_fired": agg.timeouts,
        "inconclusive": agg.verdicts.get("inconclusive", 0),
        "components": getattr(mod, "COMPONENTS", {}),
        "known_findings_seen": known_seen,
        "violations_reported": reported,
        "harness_errors": harness_errors,
        "strax_rev": strax_rev(),
        "exhaustive": False,
    }
    cov.update(getattr(mod, "EXTRA_COVERAGE", {}))
    doc = {
        "property_id": prop,
        "tier": tier,
        "seed": int(base_seed),
        "level": getattr(mod, "LEVEL", "exploration"),
        "coverage": cov,
        "assumptions": getattr(mod, "ASSUMPTIONS", []) + [
            "sampled, not exhaustive: a clean campaign is evidence, not proof",
            "pre-emption happens at synchronisation points, futures, sleeps and SimFS operations only",
            "PYTHONHASHSEED=0 (checks re-exec themselves)",
        ],
        "wall_s": round(wall, 2),
        "violations": len(reported),
    }
    path = os.path.join(EVIDENCE_DIR, f"{prop}.json")
    tmp = path + ".tmp"
    with open(tmp, "w") as f:
        json.dump(doc, f, indent=1, default=str)
    os.replace(tmp, path)
    return path


def run_check(prop, tier, base_seed, n_runs, procs, budget_s):
    mod = load_check(prop)
    if n_runs is None:
        n_runs = mod.QUICK_RUNS if tier == "quick" else mod.THOROUGH_RUNS
    if budget_s is None:
        budget_s = getattr(mod, "QUICK_BUDGET_S", 100) if tier == "quick" else getattr(mod, "THOROUGH_BUDGET_S", 1500)
    print(f"[dst] property={prop} tier={tier} VERIF_SEED={base_seed} runs<={n_runs} procs={procs} "
          f"budget={budget_s}s strax={strax_rev()}", flush=True)
    harness_errors = []
    try:
        mod, agg, wall = campaign(prop, tier, base_seed, n_runs, procs, budget_s)
    except Exception as e:  # BrokenProcessPool, HarnessError inside a worker ...
        traceback.print_exc()
        print(f"HARNESS-ERROR property={prop} {type(e).__name__}: {e}")
        return 2
    known = load_known(prop)
    reported, known_seen = [], {}
    groups = {}
    for v in agg.violations:
        key = (v["vio"]["class"], v["vio"]["signature"])
        groups.setdefault(key, []).append(v)
    rc = 0
    for key, vs in sorted(groups.items()):
        v = vs[0]
        k = match_known(known, v["vio"])
        if k is not None:
            known_seen[k["id"]] = known_seen.get(k["id"], 0) + len(vs)
            continue
        if len(reported) >= 5:
            continue
        # confirm determinism in-process first
        try:
            again = mod.run_one(v["seed"], tier, replay=v["replay"], lenient=False)
        except S.HarnessError as e:
            harness_errors.append(f"replay of {key} diverged: {e}")
            continue
        cand = again.get("violations") or ([{"vio": again["vio"], "replay": again["replay"]}] if again.get("vio") else [])
        if not any(same_violation(c["vio"], v["vio"]) for c in cand):
            harness_errors.append(f"violation {key} (seed {v['seed']}) did not reproduce from its own recording")
            continue
        rep = minimise(mod, v["seed"], tier, v["replay"], v["vio"])
        path = write_replay(prop, v["seed"], tier, rep, v["vio"])
        ok, out = verify_replay_fresh(prop, path)
        if not ok and rep.get("minimised"):
            rep = dict(v["replay"], minimised=False)
            path = write_replay(prop, v["seed"], tier, rep, v["vio"])
            ok, out = verify_replay_fresh(prop, path)
        if not ok:
            harness_errors.append(f"replay file {path} does not reproduce in a fresh interpreter: {out[-300:]}")
            continue
        print(f"violation: class={key[0]} signature={key[1]} seed={v['seed']} occurrences>={len(vs)}")
        print(f"  detail: {v['vio'].get('detail', '')[:600]}")
        print(f"VIOLATION property={prop} replay={path}", flush=True)
        reported.append({"class": key[0], "signature": key[1], "seed": v["seed"], "replay": path,
                         "occurrences": len(vs)})
        rc = 1
    for k in known:
        if k.get("status") == "known" and k["id"] in known_seen:
            print(f"KNOWN-FINDING: property={prop} {k['id']} {k['description']} (seen {known_seen[k['id']]}x)")
    ev = write_evidence(prop, mod, tier, base_seed, agg, wall, n_runs, budget_s, reported, known_seen,
                        harness_errors)
    print(f"[dst] {prop}: runs={agg.n} executions={agg.sub_evals} distinct_nontrivial={len(agg.traces)} "
          f"states={len(agg.states)} verdicts={dict(agg.verdicts)} faults={dict(agg.faults)} "
          f"wall={wall:.1f}s evidence={ev}", flush=True)
    if harness_errors:
        for h in harness_errors:
            print(f"HARNESS-ERROR property={prop} {h}")
        if rc == 0:
            rc = 2
    if agg.n == 0:
        print(f"HARNESS-ERROR property={prop} no run completed within the budget")
        rc = rc or 2
    return rc


def main(argv=None):
    ap = argparse.ArgumentParser(prog="check")
    ap.add_argument("prop")
    ap.add_argument("--tier", default=os.environ.get("VERIF_TIER", "quick"), choices=["quick", "thorough"])
    ap.add_argument("--seed", type=int, default=int(os.environ.get("VERIF_SEED", "0") or 0))
    ap.add_argument("--runs", type=int, default=None)
    ap.add_argument("--procs", type=int, default=int(os.environ.get("DST_PROCS", "0") or 0) or (os.cpu_count() or 4))
    ap.add_argument("--budget-s", type=float, default=None)
    ap.add_argument("--replay", default=None)
    a = ap.parse_args(argv)
    import strax
    root = os.environ.get("DST_STRAX_ROOT", "/repo").rstrip("/") + "/"
    if not os.path.realpath(strax.__file__).startswith(root):
        print(f"HARNESS-ERROR strax imported from {strax.__file__}, expected {root}")
        return 2
    prop = a.prop.upper()
    if prop.startswith("SELFTEST"):
        from . import selftest
        return selftest.main(prop, a)
    try:
        if a.replay:
            return do_replay(prop, a.replay)
        return run_check(prop, a.tier, a.seed, a.runs, a.procs, a.budget_s)
    except S.HarnessError as e:
        traceback.print_exc()
        print(f"HARNESS-ERROR property={prop} {type(e).__name__}: {e}")
        return 2
