"""Self-tests of the simulator itself: smoke run and determinism.

./check selftest-smoke          a few seeds of every check, in-process (also warms numba caches)
./check selftest-determinism    same seed twice in one process, once more in fresh interpreters
                                (another PYTHONHASHSEED too), digests of the event logs must agree
"""
import json
import os
import subprocess
import sys
import time

from .core import jhash
from .runner import load_check, run_seed, VERIF, _warm

ALL = ["C01", "C02", "C03", "C04", "C05", "C06", "C08", "C09", "C10", "C11", "C12", "C13",
       "C14", "C15", "C16"]


def available():
    out = []
    for p in ALL:
        if os.path.exists(os.path.join(VERIF, "dst", "checks", p.lower() + ".py")):
            out.append(p)
    return out


def digest(res):
    th = res.get("trace_hash")
    if isinstance(th, (set, list, tuple)):
        th = sorted(th)
    st = res.get("stats", {})
    return jhash([res["verdict"], res.get("vio"), th, st.get("steps"), st.get("decisions"),
                  st.get("fs_ops"), sorted(res.get("states", ()))[:50], res.get("digest")])


def digests(prop, tier, base, n):
    mod = load_check(prop)
    _warm(mod)
    return [digest(mod.run_one(run_seed(base, prop, i), tier)) for i in range(n)]


def main(name, a):
    t0 = time.time()
    if name == "SELFTEST-SMOKE":
        for p in available():
            mod = load_check(p)
            _warm(mod)
            n = getattr(mod, "SMOKE_RUNS", 5)
            bad = 0
            for i in range(n):
                r = mod.run_one(run_seed(a.seed, p, i), "quick")
                bad += r["verdict"] == "violation"
            print(f"[smoke] {p}: {n} runs, {bad} violations, {time.time() - t0:.1f}s", flush=True)
        return 0
    if name == "SELFTEST-DIGESTS":   # helper for the fresh-interpreter comparison
        p, n = os.environ["DST_ST_PROP"], int(os.environ["DST_ST_N"])
        print("DIGESTS " + json.dumps(digests(p, a.tier, a.seed, n)))
        return 0
    if name == "SELFTEST-DETERMINISM":
        props = [os.environ["DST_ST_PROP"]] if os.environ.get("DST_ST_PROP") else available()
        rc = 0
        for p in props:
            mod = load_check(p)
            n = int(os.environ.get("DST_ST_N", getattr(mod, "DETERMINISM_RUNS", 60)))
            a1 = digests(p, a.tier, a.seed, n)
            a2 = digests(p, a.tier, a.seed, n)
            same = sum(x == y for x, y in zip(a1, a2))
            fresh = []
            for hs in ("0", "12345"):
                env = dict(os.environ, DST_ST_PROP=p, DST_ST_N=str(n), DST_KEEP_HASHSEED="1",
                           PYTHONHASHSEED=hs)
                out = subprocess.run([sys.executable, os.path.join(VERIF, "check"), "selftest-digests",
                                      "--tier", a.tier, "--seed", str(a.seed)],
                                     capture_output=True, text=True, env=env, timeout=3600)
                line = [l for l in out.stdout.splitlines() if l.startswith("DIGESTS ")]
                if not line:
                    print(out.stdout[-2000:], out.stderr[-2000:])
                    fresh.append(-1)
                    continue
                b = json.loads(line[0][8:])
                fresh.append(sum(x == y for x, y in zip(a1, b)))
            ok = same == n and all(f == n for f in fresh)
            print(f"[determinism] {p}: {n} seeds; same process twice {same}/{n}; fresh interpreter "
                  f"PYTHONHASHSEED=0 {fresh[0]}/{n}; PYTHONHASHSEED=12345 {fresh[1]}/{n} -> "
                  f"{'OK' if ok else 'MISMATCH'}  ({time.time() - t0:.0f}s)", flush=True)
            if not ok:
                rc = 2
        return rc
    print("unknown selftest", name)
    return 2
