"""Harness plugin library and the independent whole-run oracle.

A *spec* is plain JSON-able data describing one run: sources with rows and chunk
bounds, and derived nodes.  ``build_classes`` turns it into fresh strax.Plugin
subclasses (real strax machinery runs them); ``oracle`` evaluates the same graph
bottom-up on whole-run arrays with plain numpy - no Chunk, no Plugin.iter, no
split_array - so the two share no code.

node kinds
  source     rows [[time, endtime, v]...], bounds [t0..tn]
  rowmap     dep, a, b              same kind, v' = a*v + b (+ tracked option 'opt')
  filter     dep, m, r              new kind, keeps rows with v % m == r
  merge2     deps [d1, d2]          same kind (row aligned), v' = v1 ^ (3*v2)
  multi      dep; names [x, y]      x: same kind v'=v+1 ; y: new kind, rows with v%2==0, v'=2v
  loop       deps [base, things]    kind of base, v' = count + 10*sum(v things fully contained)
  overlap    dep, wl, wr, mode      'rowsum': same kind; 'group' (gap g): new kind
  downchunk  dep, k                 same kind, v' = v+7, yields chunks of <= k rows
  exhaust    dep                    same kind, v' = sum of v over rows j >= i
  recorder   deps [...]             kind of first dep, v' = sum of all merged v columns of that kind
"""
import numpy as np
from immutabledict import immutabledict

import strax


class InjectedFault(Exception):
    """The exception a Faulty stage raises; must reach the caller unchanged."""


SAVE_WHEN = {"NEVER": strax.SaveWhen.NEVER, "EXPLICIT": strax.SaveWhen.EXPLICIT,
             "TARGET": strax.SaveWhen.TARGET, "ALWAYS": strax.SaveWhen.ALWAYS}


def names_of(node):
    return node["names"] if "names" in node else [node["name"]]


def deps_of(node):
    if node["kind"] == "source":
        return []
    if "deps" in node:
        return list(node["deps"])
    return [node["dep"]]


def node_by_type(spec):
    out = {}
    for n in spec["nodes"]:
        for d in names_of(n):
            out[d] = n
    return out


def kinds_of(spec):
    """data type -> data kind (types of one kind have identical time/endtime columns)."""
    k = {}
    for n in spec["nodes"]:
        kind = n["kind"]
        if kind == "source":
            k[n["name"]] = "k_" + n["name"]
        elif kind in ("rowmap", "downchunk", "exhaust", "cut"):
            k[n["name"]] = k[n["dep"]]
        elif kind in ("merge2", "mergeonly"):
            k[n["name"]] = k[n["deps"][0]]
        elif kind == "filter":
            k[n["name"]] = "k_" + n["name"]
        elif kind == "multi":
            k[n["names"][0]] = k[n["dep"]]
            k[n["names"][1]] = "k_" + n["names"][1]
        elif kind in ("loop", "recorder"):
            k[n["name"]] = k[n["deps"][0]]
        elif kind == "recorderm":
            k[n["names"][0]] = k[n["names"][1]] = k[n["deps"][0]]
        elif kind == "multi2":
            k[n["names"][0]] = k[n["names"][1]] = k[n["dep"]]
        elif kind == "overlap":
            k[n["name"]] = k[n["dep"]] if n["mode"] == "rowsum" else "k_" + n["name"]
        elif kind == "overlapm":
            k[n["names"][0]] = k[n["dep"]]
            k[n["names"][1]] = "k_" + n["names"][1]
        else:
            raise ValueError(kind)
    return k


def _rowsum(t, e, v, wl, wr):
    res = np.zeros(len(t), dtype=np.int64)
    for i in range(len(t)):
        near = (e > t[i] - wl) & (t < e[i] + wr)
        res[i] = v[near].sum()
    return res


def _groups(t, e, v, g):
    gt, ge, gv = [], [], []
    for i in range(len(t)):
        if gt and t[i] - ge[-1] <= g:
            ge[-1] = max(ge[-1], e[i])
            gv[-1] += v[i]
        else:
            gt.append(t[i]); ge.append(e[i]); gv.append(v[i])
    return (np.array(gt, dtype=np.int64), np.array(ge, dtype=np.int64), np.array(gv, dtype=np.int64))


TIME_FIELDS_TITLED = [(("Start time since unix epoch [ns]", "time"), np.int64),
                      (("Exclusive end time since unix epoch [ns]", "endtime"), np.int64)]


def is_cut_name(name):
    """Cut plugins (strax.CutPlugin) are named c<digits>: their dtype is inferred by strax (titled time fields +
    one boolean column); spelled out here independently."""
    return len(name) > 1 and name[0] == "c" and name[1:].isdigit()


def dtype_for(name):
    if is_cut_name(name):
        return np.dtype(TIME_FIELDS_TITLED + [((f"cut {name}", f"v_{name}"), np.bool_)])
    return np.dtype([("time", np.int64), ("endtime", np.int64), (f"v_{name}", np.int64)])


def merged_dtype_for(deps):
    """dtype of a strax.MergeOnlyPlugin over `deps`: fields of the dependencies in sorted order of their names,
    first occurrence of a field name wins."""
    out, seen = [], set()
    for d in sorted(deps):
        dt = dtype_for(d)
        for descr in dt.descr:
            nm = descr[0][1] if isinstance(descr[0], tuple) else descr[0]
            if nm not in seen:
                seen.add(nm)
                out.append(descr)
    return np.dtype(out)


def merge_rows(deps, arrays):
    res = np.zeros(len(arrays[deps[0]]), dtype=merged_dtype_for(deps))
    for d in deps:
        for nm in arrays[d].dtype.names:
            res[nm] = arrays[d][nm]
    return res


def make_rows(name, t, e, v):
    a = np.zeros(len(t), dtype=dtype_for(name))
    a["time"] = t
    a["endtime"] = e
    a[f"v_{name}"] = v
    return a


# ---------------------------------------------------------------------------
# oracle (whole run, plain numpy)
# ---------------------------------------------------------------------------
def _tev(arr, name):
    return arr["time"], arr["endtime"], arr[f"v_{name}"]


def oracle(spec, config=None):
    config = config or {}
    out = {}
    for n in spec["nodes"]:
        kind = n["kind"]
        if kind == "source":
            r = np.array(n["rows"], dtype=np.int64).reshape(-1, 3)
            out[n["name"]] = make_rows(n["name"], r[:, 0], r[:, 1], r[:, 2])
        elif kind == "rowmap":
            t, e, v = _tev(out[n["dep"]], n["dep"])
            opt = 0
            if n.get("has_opt") and n.get("opt_track", True):     # an untracked option must not change results
                opt = config.get(n.get("opt_name", f"opt_{n['name']}"), n.get("opt_default", 0))
            out[n["name"]] = make_rows(n["name"], t, e, n["a"] * v + n["b"] + opt)
        elif kind == "filter":
            t, e, v = _tev(out[n["dep"]], n["dep"])
            m = (v % n["m"]) == n["r"]
            out[n["name"]] = make_rows(n["name"], t[m], e[m], v[m])
        elif kind == "cut":
            t, e, v = _tev(out[n["dep"]], n["dep"])
            out[n["name"]] = make_rows(n["name"], t, e, (v % n["m"]) == n["r"])
        elif kind == "mergeonly":
            out[n["name"]] = merge_rows(n["deps"], out)
        elif kind == "merge2":
            d1, d2 = n["deps"]
            t, e, v1 = _tev(out[d1], d1)
            v2 = out[d2][f"v_{d2}"]
            out[n["name"]] = make_rows(n["name"], t, e, v1 ^ (3 * v2))
        elif kind == "multi":
            t, e, v = _tev(out[n["dep"]], n["dep"])
            x, y = n["names"]
            out[x] = make_rows(x, t, e, v + 1)
            m = (v % 2) == 0
            out[y] = make_rows(y, t[m], e[m], 2 * v[m])
        elif kind == "multi2":
            t, e, v = _tev(out[n["dep"]], n["dep"])
            x, y = n["names"]
            out[x] = make_rows(x, t, e, v + 1)
            out[y] = make_rows(y, t, e, 2 * v)
        elif kind == "loop":
            b, th = n["deps"]
            bt, be, bv = _tev(out[b], b)
            tt, te, tv = _tev(out[th], th)
            res = np.zeros(len(bt), dtype=np.int64)
            for i in range(len(bt)):
                inside = (tt >= bt[i]) & (te <= be[i])
                res[i] = inside.sum() + 10 * tv[inside].sum() + bv[i]
            out[n["name"]] = make_rows(n["name"], bt, be, res)
        elif kind == "overlap":
            t, e, v = _tev(out[n["dep"]], n["dep"])
            if n["mode"] == "rowsum":
                res = np.zeros(len(t), dtype=np.int64)
                for i in range(len(t)):
                    near = (e > t[i] - n["wl"]) & (t < e[i] + n["wr"])
                    res[i] = v[near].sum()
                out[n["name"]] = make_rows(n["name"], t, e, res)
            else:
                gt, ge, gv = [], [], []
                for i in range(len(t)):
                    if gt and t[i] - ge[-1] <= n["g"]:
                        ge[-1] = max(ge[-1], e[i])
                        gv[-1] += v[i]
                    else:
                        gt.append(t[i]); ge.append(e[i]); gv.append(v[i])
                out[n["name"]] = make_rows(n["name"], np.array(gt, dtype=np.int64),
                                           np.array(ge, dtype=np.int64), np.array(gv, dtype=np.int64))
        elif kind == "overlapm":
            t, e, v = _tev(out[n["dep"]], n["dep"])
            x, y = n["names"]
            out[x] = make_rows(x, t, e, _rowsum(t, e, v, n["wl"], n["wr"]))
            out[y] = make_rows(y, *_groups(t, e, v, n["g"]))
        elif kind == "downchunk":
            t, e, v = _tev(out[n["dep"]], n["dep"])
            out[n["name"]] = make_rows(n["name"], t, e, v + 7)
        elif kind == "exhaust":
            t, e, v = _tev(out[n["dep"]], n["dep"])
            out[n["name"]] = make_rows(n["name"], t, e, np.cumsum(v[::-1])[::-1] if len(v) else v)
        elif kind in ("recorder", "recorderm"):
            kinds = kinds_of(spec)
            first = n["deps"][0]
            t, e, _ = _tev(out[first], first)
            tot = np.zeros(len(t), dtype=np.int64)
            for d in n["deps"]:
                if kinds[d] == kinds[first]:
                    tot = tot + out[d][f"v_{d}"]
            if kind == "recorderm":         # two outputs of one kind (mixed save policies)
                out[n["names"][0]] = make_rows(n["names"][0], t, e, tot)
                out[n["names"][1]] = make_rows(n["names"][1], t, e, tot + 1)
            else:
                out[n["name"]] = make_rows(n["name"], t, e, tot)
        else:
            raise ValueError(kind)
    return out


def run_range(spec):
    for n in spec["nodes"]:
        if n["kind"] == "source":
            return n["bounds"][0], n["bounds"][-1]
    raise ValueError("no source")


# ---------------------------------------------------------------------------
# plugin classes
# ---------------------------------------------------------------------------
class _HarnessMixin:
    """Common behaviour: call log, injected faults, Byzantine outputs."""
    H_NODE = None
    H_LOG = None        # list shared by the run: (name, start, end, {kind: n_rows}, extra)
    H_FAULT = None      # {'node':..., 'row_time': T | 'chunk': i, 'kind': 'raise'|<byzantine kind>}
    H_KINDS = None

    H_FAIL_RUN = None   # run id for which this plugin raises (multi-run checks)

    def _h_log(self, start, end, kw, extra=None):
        self.__dict__["_h_last_start"] = start
        if self.H_FAIL_RUN is not None and (self.run_id == self.H_FAIL_RUN or (
                isinstance(self.H_FAIL_RUN, (list, tuple)) and self.run_id in self.H_FAIL_RUN)):
            raise InjectedFault(f"injected failure for run {self.run_id}")
        if self.H_LOG is not None:
            self.H_LOG.append((self.H_NODE["name"] if "name" in self.H_NODE else self.H_NODE["names"][0],
                               None if start is None else int(start), None if end is None else int(end),
                               {k: len(v) for k, v in kw.items()},
                               {k: (v["time"].tolist(), v["endtime"].tolist()) for k, v in kw.items()}
                               if extra == "rows" else extra))

    def _h_fault_hit(self, kw=None, chunk_i=None):
        f = self.H_FAULT
        if f is None:
            return None
        hit = False
        if "after_start" in f:
            # only a chunk that is not the first of the stream (a first chunk may start anywhere); position in
            # the stream, not call order: pool workers compute chunks in any order
            start = self.__dict__.get("_h_last_start")
            if start is None or start <= f["after_start"]:
                return None
        if "chunk" in f:
            hit = chunk_i == f["chunk"]
        elif kw:
            for arr in kw.values():
                if len(arr) and f["row_time"] in arr["time"]:
                    hit = True
        if hit:
            if self.H_LOG is not None:
                self.H_LOG.append(("__fault__", f["node"], f.get("kind")))
            return f
        return None


def _single_dep_field(node):
    return f"v_{node['dep']}"


class _Source(_HarnessMixin, strax.Plugin):
    depends_on = tuple()
    parallel = False

    def source_finished(self):
        return True

    def _h_run(self):
        """(bounds, rows, assignment) of the run being processed (per-run data for superrun checks)."""
        per_run = getattr(self, "H_RUNS", None)
        if per_run is not None:
            return per_run[self.run_id]
        return self.H_NODE["bounds"], self.H_ROWS, self.H_ASSIGN

    def is_ready(self, chunk_i):
        return chunk_i < len(self._h_run()[0]) - 1

    def compute(self, chunk_i):
        n = self.H_NODE
        b, rows, assign = self._h_run()
        start, end = b[chunk_i], b[chunk_i + 1]
        # a row belongs to the first chunk whose [start, end) can hold it
        sel = assign == chunk_i
        data = rows[sel]
        gate = getattr(self, "H_GATE", None)
        if gate is not None:
            gate(self, chunk_i)
        self._h_log(start, end, {}, extra=("chunk", chunk_i, int(sel.sum())))
        f = self._h_fault_hit(chunk_i=chunk_i)
        if f is not None:
            return byzantine(self, f, data, start, end, n["name"])
        return self.chunk(start=start, end=end, data=data)


def assign_rows_to_chunks(rows, bounds):
    """Index of the chunk that carries each row (rows never straddle a bound)."""
    out = np.zeros(len(rows), dtype=np.int64)
    nb = len(bounds) - 1
    for i, (t, e, _v) in enumerate(rows):
        for c in range(nb):
            if bounds[c] <= t and e <= bounds[c + 1] and (bounds[c] < bounds[c + 1]):
                out[i] = c
                break
        else:
            raise ValueError(f"row {t, e} fits no chunk of {bounds}")
    return out


class _RowMap(_HarnessMixin, strax.Plugin):
    def compute(self, start, end, **kw):
        n = self.H_NODE
        self._h_log(start, end, kw)
        (arr,) = kw.values()
        opt = 0
        if n.get("has_opt") and n.get("opt_track", True):
            opt = self.config[n.get("opt_name", f"opt_{n['name']}")]
        res = make_rows(n["name"], arr["time"], arr["endtime"], n["a"] * arr[f"v_{n['dep']}"] + n["b"] + opt)
        f = self._h_fault_hit(kw)
        if f is not None:
            return byzantine(self, f, res, start, end, n["name"])
        return res


class _RowMapCI(_RowMap):
    """Row-wise plugin whose compute takes chunk_i (strax then counts chunks itself; in per-chunk jobs the counter
    runs over the dependency's chunk numbers)."""

    def compute(self, chunk_i, start, end, **kw):
        return _RowMap.compute(self, start, end, **kw)


class _Filter(_HarnessMixin, strax.Plugin):
    def compute(self, start, end, **kw):
        n = self.H_NODE
        self._h_log(start, end, kw)
        (arr,) = kw.values()
        v = arr[f"v_{n['dep']}"]
        m = (v % n["m"]) == n["r"]
        res = make_rows(n["name"], arr["time"][m], arr["endtime"][m], v[m])
        f = self._h_fault_hit(kw)
        if f is not None:
            return byzantine(self, f, res, start, end, n["name"])
        return res


class _Merge2(_HarnessMixin, strax.Plugin):
    def compute(self, start, end, **kw):
        n = self.H_NODE
        self._h_log(start, end, kw)
        (arr,) = kw.values()
        d1, d2 = n["deps"]
        res = make_rows(n["name"], arr["time"], arr["endtime"], arr[f"v_{d1}"] ^ (3 * arr[f"v_{d2}"]))
        f = self._h_fault_hit(kw)
        if f is not None:
            return byzantine(self, f, res, start, end, n["name"])
        return res


class _Cut(_HarnessMixin, strax.CutPlugin):
    """strax.CutPlugin: dtype inferred by strax, compute() is strax's, only cut_by is ours."""
    cut_description = "cut"

    def cut_by(self, start, end, **kw):
        n = self.H_NODE
        self._h_log(start, end, kw)
        (arr,) = kw.values()
        f = self._h_fault_hit(kw)
        if f is not None and f["kind"] == "raise":
            raise InjectedFault(f"injected in {n['name']}")
        return (arr[f"v_{n['dep']}"] % n["m"]) == n["r"]


class _MergeOnly(_HarnessMixin, strax.MergeOnlyPlugin):
    """strax.MergeOnlyPlugin: dtype inferred from the dependencies, the merged chunk is passed through."""

    def compute(self, start, end, **kw):
        n = self.H_NODE
        self._h_log(start, end, kw)
        f = self._h_fault_hit(kw)
        if f is not None and f["kind"] == "raise":
            raise InjectedFault(f"injected in {n['name']}")
        return strax.MergeOnlyPlugin.compute(self, **kw)


class _Multi(_HarnessMixin, strax.Plugin):
    def compute(self, start, end, **kw):
        n = self.H_NODE
        self._h_log(start, end, kw)
        (arr,) = kw.values()
        v = arr[f"v_{n['dep']}"]
        x, y = n["names"]
        m = (v % 2) == 0
        res = {x: make_rows(x, arr["time"], arr["endtime"], v + 1),
               y: make_rows(y, arr["time"][m], arr["endtime"][m], 2 * v[m])}
        f = self._h_fault_hit(kw)
        if f is not None:
            return byzantine(self, f, res, start, end, None)
        return res


class _Loop(_HarnessMixin, strax.LoopPlugin):
    def compute(self, **kw):
        f = self._h_fault_hit(kw)
        self._h_log(None, None, kw)
        if f is not None and f["kind"] == "raise":
            raise InjectedFault(f"injected in {self.H_NODE['name']}")
        return super().compute(**kw)

    def compute_loop(self, base, **things):
        n = self.H_NODE
        b, th = n["deps"]
        (tarr,) = things.values()
        return {"time": base["time"], "endtime": base["endtime"],
                f"v_{n['name']}": len(tarr) + 10 * tarr[f"v_{th}"].sum() + base[f"v_{b}"]}


class _Overlap(_HarnessMixin, strax.OverlapWindowPlugin):
    def get_window_size(self):
        return (self.H_NODE["wl"], self.H_NODE["wr"])

    def compute(self, start, end, **kw):
        n = self.H_NODE
        self._h_log(start, end, kw)
        (arr,) = kw.values()
        t, e, v = arr["time"], arr["endtime"], arr[f"v_{n['dep']}"]
        if n["mode"] == "rowsum":
            res = np.zeros(len(t), dtype=np.int64)
            for i in range(len(t)):
                near = (e > t[i] - n["wl"]) & (t < e[i] + n["wr"])
                res[i] = v[near].sum()
            out = make_rows(n["name"], t, e, res)
        else:
            gt, ge, gv = [], [], []
            for i in range(len(t)):
                if gt and t[i] - ge[-1] <= n["g"]:
                    ge[-1] = max(ge[-1], e[i])
                    gv[-1] += v[i]
                else:
                    gt.append(t[i]); ge.append(e[i]); gv.append(v[i])
            out = make_rows(n["name"], np.array(gt, dtype=np.int64), np.array(ge, dtype=np.int64),
                            np.array(gv, dtype=np.int64))
        f = self._h_fault_hit(kw)
        if f is not None:
            return byzantine(self, f, out, start, end, n["name"])
        return out


class _OverlapM(_HarnessMixin, strax.OverlapWindowPlugin):
    """Multi-output overlap-window plugin: x = per-row window sum, y = gap groups (new kind)."""

    def get_window_size(self):
        return (self.H_NODE["wl"], self.H_NODE["wr"])

    def compute(self, start, end, **kw):
        n = self.H_NODE
        self._h_log(start, end, kw)
        (arr,) = kw.values()
        t, e, v = arr["time"], arr["endtime"], arr[f"v_{n['dep']}"]
        x, y = n["names"]
        res = {x: make_rows(x, t, e, _rowsum(t, e, v, n["wl"], n["wr"])),
               y: make_rows(y, *_groups(t, e, v, n["g"]))}
        f = self._h_fault_hit(kw)
        if f is not None:
            return byzantine(self, f, res, start, end, None)
        return res


class _DownChunk(_HarnessMixin, strax.DownChunkingPlugin):
    def compute(self, start, end, **kw):
        n = self.H_NODE
        self._h_log(start, end, kw)
        (arr,) = kw.values()
        k = max(1, n["k"])
        res = make_rows(n["name"], arr["time"], arr["endtime"], arr[f"v_{n['dep']}"] + 7)
        f = self._h_fault_hit(kw)
        if f is not None and f["kind"] == "raise":
            raise InjectedFault(f"injected in {n['name']}")
        # cut only where no row straddles: after row i if max endtime so far <= time of row i+1
        cuts = []
        latest = -1
        for i in range(len(res) - 1):
            latest = max(latest, res["endtime"][i])
            if (i + 1) % k == 0 and latest <= res["time"][i + 1]:
                cuts.append((i + 1, int(latest)))
        last_start, last_i = start, 0
        for i, t_cut in cuts:
            data = res[last_i:i]
            if f is not None:
                yield byzantine(self, f, data, last_start, t_cut, n["name"], as_chunk=True)
                f = None
            else:
                yield self.chunk(start=last_start, end=t_cut, data=data, data_type=n["name"])
            last_start, last_i = t_cut, i
        data = res[last_i:]
        if f is not None:
            yield byzantine(self, f, data, last_start, end, n["name"], as_chunk=True)
        else:
            yield self.chunk(start=last_start, end=end, data=data, data_type=n["name"])


class _Exhaust(_HarnessMixin, strax.ExhaustPlugin):
    def compute(self, start, end, **kw):
        n = self.H_NODE
        self._h_log(start, end, kw)
        (arr,) = kw.values()
        v = arr[f"v_{n['dep']}"]
        f = self._h_fault_hit(kw)
        res = make_rows(n["name"], arr["time"], arr["endtime"], np.cumsum(v[::-1])[::-1] if len(v) else v)
        if f is not None:
            return byzantine(self, f, res, start, end, n["name"])
        return res


class _Recorder(_HarnessMixin, strax.Plugin):
    def compute(self, start, end, **kw):
        n = self.H_NODE
        self._h_log(start, end, kw, extra="rows")
        kinds = self.H_KINDS
        first = n["deps"][0]
        arr = kw[kinds[first]]
        tot = np.zeros(len(arr), dtype=np.int64)
        for d in n["deps"]:
            if kinds[d] == kinds[first]:
                tot = tot + arr[f"v_{d}"]
        f = self._h_fault_hit(kw)
        if f is not None and f["kind"] == "raise":
            raise InjectedFault(f"injected in {n['name']}")
        return make_rows(n["name"], arr["time"], arr["endtime"], tot)


class _Multi2(_HarnessMixin, strax.Plugin):
    """Two outputs of the SAME kind (row aligned): their descendants can be merged again."""

    def compute(self, start, end, **kw):
        n = self.H_NODE
        self._h_log(start, end, kw)
        (arr,) = kw.values()
        v = arr[f"v_{n['dep']}"]
        x, y = n["names"]
        res = {x: make_rows(x, arr["time"], arr["endtime"], v + 1),
               y: make_rows(y, arr["time"], arr["endtime"], 2 * v)}
        f = self._h_fault_hit(kw)
        if f is not None:
            return byzantine(self, f, res, start, end, None)
        return res


class _RecorderM(_HarnessMixin, strax.Plugin):
    def compute(self, start, end, **kw):
        n = self.H_NODE
        self._h_log(start, end, kw, extra="rows")
        kinds = self.H_KINDS
        first = n["deps"][0]
        arr = kw[kinds[first]]
        tot = np.zeros(len(arr), dtype=np.int64)
        for d in n["deps"]:
            if kinds[d] == kinds[first]:
                tot = tot + arr[f"v_{d}"]
        x, y = n["names"]
        return {x: make_rows(x, arr["time"], arr["endtime"], tot),
                y: make_rows(y, arr["time"], arr["endtime"], tot + 1)}


BASES = {"source": _Source, "rowmap": _RowMap, "filter": _Filter, "merge2": _Merge2, "multi": _Multi,
         "loop": _Loop, "overlap": _Overlap, "overlapm": _OverlapM, "downchunk": _DownChunk,
         "exhaust": _Exhaust, "cut": _Cut, "mergeonly": _MergeOnly,
         "recorder": _Recorder, "recorderm": _RecorderM, "multi2": _Multi2}

BYZANTINE_KINDS = ("wrong_dtype_bare", "wrong_dtype_chunk", "rows_outside", "wrong_data_type",
                   "gap", "overlap", "non_dict")


def byzantine(plugin, f, good, start, end, name, as_chunk=False):
    """Return a contract-violating output (or raise InjectedFault) in place of `good`."""
    kind = f["kind"]
    if kind == "raise":
        raise InjectedFault(f"injected in {name or plugin.H_NODE.get('names')}")
    multi = isinstance(good, dict)
    if kind == "non_dict":
        return list(good.values())[0] if multi else good
    tgt = f.get("output") or (list(good)[0] if multi else name)

    def bad_one(arr, nm):
        variant = f.get("variant")
        if kind == "wrong_dtype_bare":
            if variant == "empty":
                # no rows at all, of another dtype (np.array([]) is the classic): the rows of this chunk vanish
                return np.zeros(0, dtype=np.float64) if len(arr) % 2 else \
                    np.zeros(0, dtype=[("time", np.int64), ("endtime", np.int64), ("oops", np.float32)])
            return np.zeros(len(arr) or 1, dtype=[("time", np.int64), ("endtime", np.int64),
                                                  ("oops", np.float32)])
        if kind == "wrong_dtype_chunk":
            w = np.zeros(len(arr), dtype=[("time", np.int64), ("endtime", np.int64), ("oops", np.float32)])
            w["time"], w["endtime"] = arr["time"], arr["endtime"]
            if variant == "assigned":
                # a chunk made the regular way, whose rows are then replaced through its public data attribute
                c = plugin.chunk(start=start, end=end, data=arr, data_type=nm)
                c.data = w
                return c
            # 'consistent': a chunk built by hand that is consistent in itself (declares the foreign dtype)
            return strax.Chunk(start=start, end=end, data=w, data_type=nm, data_kind=plugin.data_kind_for(nm),
                               dtype=w.dtype if variant == "consistent" else plugin.dtype_for(nm),
                               run_id=plugin._run_id, target_size_mb=plugin.chunk_target_size_mb)
        if kind == "rows_outside":
            w = arr.copy() if len(arr) else make_rows(nm, [start], [start + 1], [0])
            # which row sticks out: rows are sorted by start time only, so it need not be the last one
            idx = {"first": 0, "middle": len(w) // 2, "last": len(w) - 1}[f.get("row", "last")]
            w["endtime"][idx] = end + 5
            if as_chunk or start is None or plugin.H_NODE["kind"] == "source":
                return plugin.chunk(start=start, end=end, data=w, data_type=nm)
            return w
        if kind == "wrong_data_type":
            other = "zz_other"
            if variant == "sibling" and multi:
                other = [k for k in good if k != nm][0]       # the label of another output of the same plugin
            c = plugin.chunk(start=start, end=end, data=arr, data_type=nm)
            c.data_type = other
            return c
        if kind in ("gap", "overlap") and variant == "empty":
            arr = arr[:0]       # the offending chunk carries no rows at all
        if kind == "gap":
            if end <= start or (len(arr) and arr["time"].min() <= start):
                plugin.H_LOG.append(("__noeffect__", nm, kind))     # cannot shift this chunk's start
                return plugin.chunk(start=start, end=end, data=arr, data_type=nm)
            return plugin.chunk(start=start + 1, end=end, data=arr, data_type=nm)
        if kind == "overlap":
            if start <= 0:
                plugin.H_LOG.append(("__noeffect__", nm, kind))
                return plugin.chunk(start=start, end=end, data=arr, data_type=nm)
            if variant == "empty":
                return plugin.chunk(start=start - 1, end=end, data=arr, data_type=nm)
            # an overlapping chunk that re-delivers something: one extra row inside the overlap
            extra = make_rows(nm, [start - 1], [start], [-1])
            return plugin.chunk(start=start - 1, end=end, data=np.concatenate([extra, arr]), data_type=nm)
        raise ValueError(kind)

    if multi:
        return {k: (bad_one(v, k) if k == tgt else v) for k, v in good.items()}
    return bad_one(good, name)


class SpyTMP(strax.ThreadedMailboxProcessor):
    INSTANCES = []

    def __init__(self, *a, **kw):
        super().__init__(*a, **kw)
        SpyTMP.INSTANCES.append(self)


class SpySTP(strax.SingleThreadProcessor):
    INSTANCES = []

    def __init__(self, *a, **kw):
        super().__init__(*a, **kw)
        SpySTP.INSTANCES.append(self)


def reset_spies():
    SpyTMP.INSTANCES = []
    SpySTP.INSTANCES = []


PROCESSORS = {"threaded_mailbox": SpyTMP, "single_thread": SpySTP}


def build_classes(spec, log=None, fault=None, prefix="H"):
    """Fresh plugin classes for one run.  Returns {data type: class} (multi-output: both keys)."""
    kinds = kinds_of(spec)
    classes = {}
    ordered = []
    for n in spec["nodes"]:
        nm = names_of(n)
        base = BASES[n["kind"]]
        opts = n.get("opts", {})
        if n["kind"] == "rowmap" and opts.get("takes_chunk_i"):
            base = _RowMapCI
        attrs = {
            "H_NODE": n, "H_LOG": log, "H_KINDS": kinds,
            "H_FAULT": fault if (fault is not None and fault["node"] in nm) else None,
            "provides": tuple(nm),
            "depends_on": tuple(deps_of(n)),
            "__version__": n.get("version", "0.0.1"),
            "parallel": opts.get("parallel", False),
            "compressor": opts.get("compressor", "blosc"),
            "chunk_target_size_mb": opts.get("target_mb", strax.DEFAULT_CHUNK_SIZE_MB),
            "rechunk_on_load": opts.get("rechunk_on_load", False),
            "chunk_source_size_mb": opts.get("source_mb", strax.DEFAULT_CHUNK_SIZE_MB),
            "allow_superrun": opts.get("allow_superrun", False),
            "__module__": "dst.dyn",
        }
        if opts.get("max_messages") is not None:
            attrs["max_messages"] = opts["max_messages"]
        if "names" in n:
            attrs["data_kind"] = immutabledict({d: kinds[d] for d in nm})
            attrs["dtype"] = {d: dtype_for(d) for d in nm}
            sw = opts.get("save_when", "ALWAYS")
            if isinstance(sw, str):
                sw = {d: sw for d in nm}
            attrs["save_when"] = immutabledict({d: SAVE_WHEN[sw[d]] for d in nm})
            ros = opts.get("rechunk_on_save", True)
            if isinstance(ros, bool):
                ros = {d: ros for d in nm}
            attrs["rechunk_on_save"] = immutabledict(ros)
        else:
            attrs["data_kind"] = kinds[nm[0]]
            attrs["dtype"] = dtype_for(nm[0])
            if n["kind"] == "cut":
                del attrs["dtype"]              # CutPlugin.infer_dtype builds it from cut_name / cut_description
                attrs["cut_name"] = f"v_{nm[0]}"
                attrs["cut_description"] = f"cut {nm[0]}"     # numpy field titles must be unique when merged
            elif n["kind"] == "mergeonly":
                del attrs["dtype"]              # MergeOnlyPlugin.infer_dtype merges the dependencies' dtypes
            elif opts.get("infer") and deps_of(n):
                # dtype through infer_dtype(); data kind inferred from the first dependency where that is right
                del attrs["dtype"]
                attrs["infer_dtype"] = (lambda _d: (lambda self: _d))(dtype_for(nm[0]))
                if kinds[deps_of(n)[0]] == kinds[nm[0]]:
                    del attrs["data_kind"]
            attrs["save_when"] = SAVE_WHEN[opts.get("save_when", "ALWAYS")]
            attrs["rechunk_on_save"] = opts.get("rechunk_on_save", True)
        if n["kind"] == "source":
            rows = np.array(n["rows"], dtype=np.int64).reshape(-1, 3)
            attrs["H_ROWS"] = make_rows(n["name"], rows[:, 0], rows[:, 1], rows[:, 2])
            attrs["H_ASSIGN"] = assign_rows_to_chunks(n["rows"], n["bounds"])
            if "runs" in n:
                per_run = {}
                for rid, rd in n["runs"].items():
                    rr = np.array(rd["rows"], dtype=np.int64).reshape(-1, 3)
                    per_run[rid] = (rd["bounds"], make_rows(n["name"], rr[:, 0], rr[:, 1], rr[:, 2]),
                                    assign_rows_to_chunks(rd["rows"], rd["bounds"]))
                attrs["H_RUNS"] = per_run
        if n["kind"] == "loop":
            attrs["loop_over"] = kinds[n["deps"][0]]
        cname = n.get("class_name") or f"{prefix}_{nm[0]}"
        cls = type(cname, (base,), attrs)
        options = []
        if n.get("has_opt"):
            options.append(strax.Option(n.get("opt_name", f"opt_{n['name']}"), default=n.get("opt_default", 0),
                                        track=n.get("opt_track", True), type=int))
        for eo in n.get("extra_opts", []):
            options.append(strax.Option(eo["name"], default=eo["default"], track=eo.get("track", True)))
        if options:
            cls = strax.takes_config(*options)(cls)
        import dst.dyn as dyn
        setattr(dyn, cname, cls)
        for d in nm:
            classes[d] = cls
        ordered.append(cls)
    return classes, ordered


def make_context(ordered_classes, storage, config=None, **ctx_opts):
    ctx_opts.setdefault("timeout", 60)
    ctx_opts.setdefault("saver_timeout", 60)
    return strax.Context(storage=storage, register=list(ordered_classes), config=config or {},
                         processors=PROCESSORS, **ctx_opts)


def rows_equal(a, b):
    if a.dtype != b.dtype or len(a) != len(b):
        return False
    return a.tobytes() == b.tobytes()


def describe_diff(got, exp):
    if got.dtype != exp.dtype:
        return f"dtype {got.dtype} != {exp.dtype}"
    if len(got) != len(exp):
        gt = set(zip(got["time"].tolist(), got["endtime"].tolist()))
        et = set(zip(exp["time"].tolist(), exp["endtime"].tolist()))
        return (f"{len(got)} rows, expected {len(exp)}; missing {sorted(et - gt)[:5]} "
                f"extra {sorted(gt - et)[:5]}")
    for nm in got.dtype.names:
        bad = np.nonzero(got[nm] != exp[nm])[0]
        if len(bad):
            i = int(bad[0])
            return f"field {nm} differs at row {i}: got {got[nm][i]} expected {exp[nm][i]} ({len(bad)} rows)"
    return "equal"
