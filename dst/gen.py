"""Seeded workload generators: rows, law-abiding chunkings, plugin graphs, configuration swarm."""
from . import plugins as P

GAPS = [0, 0, 1, 2, 5, 40, 1500, 3000]
EPOCH_NS = 1_700_000_000_000_000_037


def gen_rows(r, n, disjoint=True, t0=0, long_rows=False, vmax=50):
    """n rows [time, endtime, v], sorted by time.  disjoint: time_i >= endtime_{i-1}."""
    rows = []
    t = t0 + r.choice([0, 0, 1, 3, 1200])
    prev_end = t
    while len(rows) < n:
        length = r.choice([1, 1, 2, 3, 6] + ([900, 2500] if long_rows else []))
        if disjoint or not rows:
            start = prev_end + r.choice(GAPS)
        else:
            # may start inside the previous row (overlapping), never before its start
            start = r.randint(rows[-1][0], prev_end + r.choice(GAPS))
        if not disjoint and r.random() < 0.25 and n - len(rows) >= 3:
            # nest: a long row, a short row inside it that ends early, then rows starting inside the
            # long row after the nested one ended (end times are NOT sorted)
            L = r.choice([20, 60, 2000, 6000])
            rows.append([start, start + L, r.randint(0, vmax)])
            t0 = start + r.randint(0, 3)
            for _ in range(r.randint(1, min(3, n - len(rows)))):
                ln = r.choice([1, 2, 5])
                rows.append([t0, t0 + ln, r.randint(0, vmax)])
                t0 = t0 + ln + r.choice([0, 1, 4, L // 3])
            prev_end = max(prev_end, start + L, max(x[1] for x in rows))
            rows.sort(key=lambda x: x[0])
            continue
        rows.append([start, start + length, r.randint(0, vmax)])
        prev_end = max(prev_end, start + length)
    rows.sort(key=lambda x: x[0])
    return rows


def cut_candidates(rows, run_start, run_end):
    """All times where a chunk boundary straddles no row, as (lo, hi) closed gaps."""
    gaps = []
    latest = run_start
    for t, e, _ in rows:
        if t >= latest:
            gaps.append((latest, t))
        latest = max(latest, e)
    gaps.append((latest, run_end))
    return gaps


def gen_bounds(r, rows, run_start, run_end, max_chunks=8, zero_dur_p=0.12, style=None):
    gaps = cut_candidates(rows, run_start, run_end)
    style = style or r.choice(["few", "few", "many", "one", "random"])
    cand = set()
    for lo, hi in gaps:
        cand.update({lo, hi, (lo + hi) // 2})
    cand = sorted(c for c in cand if run_start <= c <= run_end)
    if style == "one":
        k = 0
    elif style == "many":
        k = min(len(cand), max_chunks - 1)
    elif style == "few":
        k = min(len(cand), r.randint(0, 2))
    else:
        k = min(len(cand), r.randint(0, max_chunks - 1))
    inner = sorted(r.sample(cand, k)) if k else []
    if inner and r.random() < zero_dur_p:
        inner.append(r.choice(inner))      # duplicate boundary = zero-duration chunk
        inner.sort()
    return [run_start] + inner + [run_end]


def run_span(all_rows, r):
    tmin = min([x[0] for rows in all_rows for x in rows], default=0)
    tmax = max([x[1] for rows in all_rows for x in rows], default=tmin + 1)
    start = max(0, tmin - r.choice([0, 0, 1, 7, 2000]))
    end = tmax + r.choice([0, 0, 1, 7, 2000])
    if end <= start:
        end = start + 1
    return start, end


KINDS_ALL = ("rowmap", "filter", "merge2", "multi", "loop", "overlap", "overlapm", "downchunk", "exhaust",
             "recorder", "cut", "multi2")
# 'mergeonly' (strax.MergeOnlyPlugin) has no v_<name> column of its own: leaf only, opted into per check
KINDS_WITH_MERGEONLY = KINDS_ALL + ("mergeonly",)
LAGGING = ("overlap", "overlapm", "downchunk", "exhaust")


def gen_graph(r, n_derived=(1, 5), n_sources=(1, 2), kinds=KINDS_ALL, n_rows=(0, 12),
              must_have=None, max_chunks=8, disjoint_sources=None, bounds_style=None, long_rows_p=0.15):
    """A random acyclic plugin graph with data.  Returns the spec (JSON-able)."""
    ns = r.randint(*n_sources)
    nodes, types, kind_of, disjoint, all_rows = [], [], {}, {}, []
    src_rows = []
    # real data carries epoch-scale nanosecond timestamps (beyond 2**53): a quarter of the workloads do too
    t_base = EPOCH_NS if r.random() < 0.25 else 0
    for i in range(ns):
        dj = r.random() < 0.7 if disjoint_sources is None else disjoint_sources
        rows = gen_rows(r, r.randint(*n_rows), disjoint=dj, long_rows=r.random() < long_rows_p, t0=t_base)
        src_rows.append((dj, rows))
        all_rows.append(rows)
    start, end = run_span(all_rows, r)
    for i, (dj, rows) in enumerate(src_rows):
        name = f"s{chr(97 + i)}"
        nodes.append({"name": name, "kind": "source", "rows": rows,
                      "bounds": gen_bounds(r, rows, start, end, max_chunks=max_chunks,
                                           style=(r.choice(bounds_style) if bounds_style else None))})
        types.append(name)
        kind_of[name] = "k_" + name
        disjoint[name] = dj
    leaf_only = set()
    nd = r.randint(*n_derived)
    pending_must = list(must_have or [])
    i = 0
    tries = 0
    while i < nd and tries < 60:
        tries += 1
        usable = [t for t in types if t not in leaf_only]
        kind = pending_must[0] if pending_must else r.choice(kinds)
        name = f"n{i}"
        node = None
        if kind == "rowmap":
            d = r.choice(usable)
            node = {"name": name, "kind": "rowmap", "dep": d, "a": r.choice([1, 2, 3, -1]), "b": r.randint(0, 9)}
            kind_of[name], disjoint[name] = kind_of[d], disjoint[d]
        elif kind == "filter":
            d = r.choice(usable)
            m = r.choice([2, 3, 5])
            node = {"name": name, "kind": "filter", "dep": d, "m": m, "r": r.randrange(m)}
            kind_of[name], disjoint[name] = "k_" + name, disjoint[d]
        elif kind == "cut":
            d = r.choice(usable)
            m = r.choice([2, 3])
            name = f"c{i}"
            node = {"name": name, "kind": "cut", "dep": d, "m": m, "r": r.randrange(m)}
            kind_of[name], disjoint[name] = kind_of[d], disjoint[d]
        elif kind == "mergeonly":
            pairs = [(a, b) for a in usable for b in usable if a < b and kind_of[a] == kind_of[b]]
            if not pairs:
                continue
            a, b = r.choice(pairs)
            deps = [a, b]
            third = [c for c in usable if c not in deps and kind_of[c] == kind_of[a]]
            if third and r.random() < 0.3:
                deps.append(r.choice(third))
            r.shuffle(deps)
            node = {"name": name, "kind": "mergeonly", "deps": deps}
            kind_of[name], disjoint[name] = kind_of[a], disjoint[a]
            leaf_only.add(name)
        elif kind == "merge2":
            pairs = [(a, b) for a in usable for b in usable if a < b and kind_of[a] == kind_of[b]]
            if not pairs:
                continue
            a, b = r.choice(pairs)
            if r.random() < 0.5:
                a, b = b, a
            node = {"name": name, "kind": "merge2", "deps": [a, b]}
            kind_of[name], disjoint[name] = kind_of[a], disjoint[a]
        elif kind == "multi":
            d = r.choice(usable)
            x, y = f"{name}x", f"{name}y"
            node = {"names": [x, y], "kind": "multi", "dep": d}
            kind_of[x], disjoint[x] = kind_of[d], disjoint[d]
            kind_of[y], disjoint[y] = "k_" + y, disjoint[d]
        elif kind == "multi2":
            d = r.choice(usable)
            x, y = f"{name}x", f"{name}y"
            node = {"names": [x, y], "kind": "multi2", "dep": d}
            kind_of[x], disjoint[x] = kind_of[d], disjoint[d]
            kind_of[y], disjoint[y] = kind_of[d], disjoint[d]
        elif kind == "loop":
            bases = [t for t in usable if disjoint[t]]
            if not bases:
                continue
            b = r.choice(bases)
            things = [t for t in usable if kind_of[t] != kind_of[b]]
            if not things:
                continue
            th = r.choice(things)
            node = {"name": name, "kind": "loop", "deps": [b, th]}
            kind_of[name], disjoint[name] = kind_of[b], True
        elif kind == "overlap":
            ds = [t for t in usable if disjoint[t]]
            if not ds:
                continue
            d = r.choice(ds)
            mode = r.choice(["rowsum", "group"])
            wl, wr = r.choice([(0, 0), (3, 3), (0, 6), (6, 0), (2, 5), (50, 50), (1600, 1600)])
            node = {"name": name, "kind": "overlap", "dep": d, "wl": wl, "wr": wr, "mode": mode}
            if mode == "group":
                node["g"] = r.randint(0, wr)
                node["wl"] = max(wl, node["g"])
                kind_of[name] = "k_" + name
            else:
                kind_of[name] = kind_of[d]
            disjoint[name] = True
        elif kind == "overlapm":
            ds = [t for t in usable if disjoint[t]]
            if not ds:
                continue
            d = r.choice(ds)
            wl, wr = r.choice([(0, 0), (3, 3), (0, 6), (6, 0), (2, 5), (50, 50), (1600, 1600)])
            g = r.randint(0, wr)
            x, y = f"{name}x", f"{name}y"
            node = {"names": [x, y], "kind": "overlapm", "dep": d, "wl": max(wl, g), "wr": wr, "g": g}
            kind_of[x], disjoint[x] = kind_of[d], True
            kind_of[y], disjoint[y] = "k_" + y, True
        elif kind == "downchunk":
            d = r.choice(usable)
            node = {"name": name, "kind": "downchunk", "dep": d, "k": r.randint(1, 4)}
            kind_of[name], disjoint[name] = kind_of[d], disjoint[d]
        elif kind == "recorder":
            if len(usable) < 2:
                continue
            deps = r.sample(usable, r.randint(2, min(3, len(usable))))
            node = {"name": name, "kind": "recorder", "deps": deps}
            kind_of[name], disjoint[name] = kind_of[deps[0]], disjoint[deps[0]]
        elif kind == "exhaust":
            d = r.choice(usable)
            node = {"name": name, "kind": "exhaust", "dep": d}
            kind_of[name], disjoint[name] = kind_of[d], disjoint[d]
            leaf_only.add(name)
        if node is None:
            continue
        if pending_must:
            pending_must.pop(0)
        nodes.append(node)
        types.extend(P.names_of(node))
        i += 1
    return {"run_id": "0", "nodes": nodes}


def gen_sibling_diamond(r, n_rows=(1, 10), max_chunks=8):
    """source -> two same-kind outputs of ONE plugin -> asymmetric branches (one may lag) -> merged again.

    Random graphs almost never build this shape, and it is where processors treat sibling outputs of a
    multi-output plugin differently (one stored and loaded, the other recomputed; one read far ahead of the other).
    """
    t_base = EPOCH_NS if r.random() < 0.25 else 0
    rows = gen_rows(r, r.randint(*n_rows), disjoint=True, t0=t_base)
    start, end = run_span([rows], r)
    nodes = [{"name": "sa", "kind": "source", "rows": rows,
              "bounds": gen_bounds(r, rows, start, end, max_chunks=max_chunks)},
             {"names": ["n0x", "n0y"], "kind": "multi2", "dep": "sa"}]
    a, b = ("n0x", "n0y") if r.random() < 0.5 else ("n0y", "n0x")
    lag = r.choice(["overlap", "overlap", "downchunk", "rowmap"])
    if lag == "overlap":
        wl, wr = r.choice([(3, 3), (0, 6), (6, 0), (50, 50), (1600, 1600)])
        nodes.append({"name": "n1", "kind": "overlap", "dep": a, "wl": wl, "wr": wr, "mode": "rowsum"})
    elif lag == "downchunk":
        nodes.append({"name": "n1", "kind": "downchunk", "dep": a, "k": r.randint(1, 4)})
    else:
        nodes.append({"name": "n1", "kind": "rowmap", "dep": a, "a": 2, "b": 1})
    other = b
    if r.random() < 0.6:
        nodes.append({"name": "n2", "kind": "rowmap", "dep": b, "a": r.choice([1, 3]), "b": r.randint(0, 5)})
        other = "n2"
    deps = ["n1", other]
    r.shuffle(deps)
    top = r.choice(["merge2", "recorder"])
    nodes.append({"name": "n3", "kind": top, "deps": deps})
    return {"run_id": "0", "nodes": nodes}, "n3"


def consumers(spec):
    c = {}
    for n in spec["nodes"]:
        for d in P.deps_of(n):
            c.setdefault(d, []).append(P.names_of(n)[0])
    return c


def ancestors(spec, t):
    nb = P.node_by_type(spec)
    out, todo = set(), [t]
    while todo:
        x = todo.pop()
        for d in P.deps_of(nb[x]):
            if d not in out:
                out.add(d)
                todo.append(d)
    return out


def needed_for(spec, target):
    return ancestors(spec, target) | {target}


def reconvergent(spec, target):
    """Can two paths from one produced type re-join below `target`?  (capacity must then cover lag)"""
    need = needed_for(spec, target)
    for t in need:
        users = [n for n in spec["nodes"] if t in P.deps_of(n) and set(P.names_of(n)) & need]
        if len(users) >= 2:
            return True
    nb = P.node_by_type(spec)
    for t in need:
        if "names" in nb[t] and len(set(nb[t]["names"]) & need) == 2:
            return True
    return False


def n_source_chunks(spec):
    return sum(len(n["bounds"]) - 1 for n in spec["nodes"] if n["kind"] == "source")


def has_zero_duration(bounds):
    return any(a == b for a, b in zip(bounds[:-1], bounds[1:]))


def has_lag(spec, target, stored=()):
    """Can some consumer fall behind a sibling consumer of the same stream?

    Lag sources: overlap-window / down-chunking / exhaust plugins, several independently chunked
    inputs (sources or loaded data), and zero-duration chunks (Plugin.iter does not fetch a
    zero-duration chunk of a non-pacemaker input until the next round: one chunk of lag each).
    """
    need = needed_for(spec, target)
    nb = P.node_by_type(spec)
    srcs = [t for t in need if nb[t]["kind"] == "source"]
    if any(nb[t]["kind"] in LAGGING for t in need):
        return True
    if len(srcs) > 1:
        return True
    if stored:
        return True
    if any(has_zero_duration(nb[t]["bounds"]) for t in srcs):
        return True
    return False


def gen_proc_config(r, spec, target, stored=(), tier="quick", allow_pool=True):
    """Processor / parallelism / capacity swarm, keeping 'capacity above the largest lag'."""
    processor = r.choice(["threaded_mailbox", "threaded_mailbox", "single_thread"])
    cfg = {"processor": processor, "max_workers": 1, "allow_lazy": r.random() < 0.5,
           "allow_rechunk": r.random() < 0.7, "max_messages": r.randint(1, 4)}
    if processor == "threaded_mailbox" and allow_pool and r.random() < 0.3:
        cfg["max_workers"] = r.choice([2, 3])
        if r.random() < 0.3:
            # multiprocessing mode: 'process'-parallel plugins are inlined into a ParallelSourcePlugin that runs
            # behind the process-pool stub (see decorate() of the checks for the per-plugin flags)
            cfg["allow_multiprocess"] = True
    if processor == "threaded_mailbox":
        # the processor applies max_messages to lazy mailboxes too
        if reconvergent(spec, target) and has_lag(spec, target, stored):
            cfg["max_messages"] = 10_000      # capacity above any possible lag
    return cfg
