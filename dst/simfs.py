"""In-memory file system with an operation log, fault plans and process-death freezing.

Only paths under ROOT ('/__simfs__') are simulated; everything else is passed to
the real functions (numba caches, imports ...).  ROOT does not exist on disk, so
an un-shimmed access fails loudly instead of silently touching the real disk.
"""
import errno
import fnmatch
import hashlib
import io
import os as _os
import posixpath

from .sched import SimCrash

ROOT = "/__simfs__"

MUTATING = ("makedirs", "open_w", "write", "rename", "remove", "rmdir")


def is_sim(p):
    try:
        p = _os.fspath(p)
    except TypeError:
        return False
    if isinstance(p, bytes):
        p = p.decode()
    return p == ROOT or p.startswith(ROOT + "/")


def norm(p):
    p = _os.fspath(p)
    if isinstance(p, bytes):
        p = p.decode()
    return posixpath.normpath(p)


class Fault:
    """One planned fault.

    kind: eio | enospc | eacces | short_write | read_eio | read_corrupt |
          crash_before | crash_after | crash_torn | full_disk_from
    at:   operation index (over all logged operations)            [index faults]
    path_prefix / op_kind / nth: alternative addressing: the nth operation of a
          kind whose path starts with the prefix                   [path faults]
    """

    def __init__(self, kind, at=None, path_prefix=None, op_kind=None, nth=0, sticky=False, arg=None):
        self.kind = kind
        self.at = at
        self.path_prefix = path_prefix
        self.op_kind = op_kind
        self.nth = nth
        self.sticky = sticky
        self.arg = arg
        self.seen = 0
        self.fired = 0

    def to_json(self):
        return {k: getattr(self, k) for k in ("kind", "at", "path_prefix", "op_kind", "nth", "sticky", "arg")
                if getattr(self, k) is not None}

    @classmethod
    def from_json(cls, d):
        return cls(**d)

    def matches(self, index, kind, path):
        if self.at is not None:
            if self.kind == "full_disk_from":
                return index >= self.at and kind in MUTATING
            return index == self.at
        if self.op_kind is not None and kind != self.op_kind:
            return False
        if self.path_prefix is not None and not path.startswith(self.path_prefix):
            return False
        if self.op_kind is None and self.path_prefix is None:
            return False
        if self.sticky:
            self.seen += 1
            return self.seen > self.nth
        hit = self.seen == self.nth
        self.seen += 1
        return hit


class SimFS:
    def __init__(self, sim=None, order_salt=0):
        self.sim = sim
        self.dirs = {"/", ROOT}
        self.files = {}
        self.ops = []            # (index, thread name, kind, path, extra)
        self.faults = []
        self.fired = []          # (fault kind, op index, op kind, path)
        self.frozen = False
        self.order_salt = order_salt
        self.healed = False
        self.log_reads = True
        self.n_mut = 0

    # -- bookkeeping -------------------------------------------------------
    def attach(self, sim):
        self.sim = sim
        if sim is not None:
            sim.fs = self

    def _tname(self):
        s = self.sim
        return s.current.name if s is not None and s.current is not None else None

    def _order(self, names):
        """listdir/glob order is legal nondeterminism: a per-run keyed permutation."""
        if self.order_salt == 0:
            return sorted(names)
        if self.order_salt == 1:
            return sorted(names, reverse=True)
        return sorted(names, key=lambda n: hashlib.md5(f"{self.order_salt}:{n}".encode()).digest())

    def _op(self, kind, path, extra=None, data=None):
        """Log an operation; yield to the scheduler; apply planned faults.

        Returns None, or ('short', n) / ('torn', n) instructions for writes.
        """
        if self.frozen:
            raise SimCrash()
        s = self.sim
        if s is not None and s.current is not None:
            if s.aborting:
                raise s.abort_exc()
            if len(s.threads) > 1:
                s.yield_point("fs")
        if self.frozen:
            raise SimCrash()
        i = len(self.ops)
        self.ops.append((i, self._tname(), kind, path, extra))
        if kind in MUTATING:
            self.n_mut += 1
        instr = None
        if self.faults and not self.healed:
            for f in self.faults:
                if f.fired and not f.sticky and f.kind != "full_disk_from":
                    continue
                if not f.matches(i, kind, path):
                    continue
                k = f.kind
                if k in ("read_eio", "read_corrupt") and kind != "read":
                    continue
                if k in ("short_write", "crash_torn") and kind != "write":
                    if k == "crash_torn":
                        k = "crash_before"
                    else:
                        k = "enospc"
                f.fired += 1
                self.fired.append((f.kind, i, kind, path))
                if k == "eio":
                    raise OSError(errno.EIO, f"injected EIO [dst-fault] at {kind}", path)
                if k in ("enospc", "full_disk_from"):
                    raise OSError(errno.ENOSPC, f"injected ENOSPC [dst-fault] at {kind}", path)
                if k == "eacces":
                    raise PermissionError(errno.EACCES, f"injected EACCES [dst-fault] at {kind}", path)
                if k == "read_eio":
                    raise OSError(errno.EIO, f"injected read EIO [dst-fault]", path)
                if k == "read_corrupt":
                    instr = ("corrupt", f.arg)
                elif k == "short_write":
                    instr = ("short", f.arg)
                elif k == "crash_torn":
                    instr = ("torn", f.arg)
                elif k == "crash_before":
                    self._die()
                elif k == "crash_after":
                    instr = ("die_after", None)
        return instr

    def _die(self):
        self.frozen = True
        if self.sim is not None:
            self.sim.crash()
        raise SimCrash()

    def thaw(self):
        """Restart: the simulated disk survives, the fault plan does not."""
        self.frozen = False
        self.faults = []
        self.healed = False

    # -- read-only name-space queries (not yield points, not logged) --------
    def exists(self, p):
        p = norm(p)
        return p in self.dirs or p in self.files

    def isdir(self, p):
        return norm(p) in self.dirs

    def isfile(self, p):
        return norm(p) in self.files

    def getsize(self, p):
        p = norm(p)
        if p in self.files:
            return len(self.files[p])
        if p in self.dirs:
            return 4096
        raise FileNotFoundError(errno.ENOENT, "No such file or directory", p)

    def getmtime(self, p):
        if not self.exists(p):
            raise FileNotFoundError(errno.ENOENT, "No such file or directory", norm(p))
        return 0.0

    def access(self, p, mode):
        return self.exists(p)

    def _children(self, p):
        pre = p.rstrip("/") + "/"
        out = set()
        for x in self.dirs:
            if x.startswith(pre) and x != p:
                out.add(x[len(pre):].split("/")[0])
        for x in self.files:
            if x.startswith(pre):
                out.add(x[len(pre):].split("/")[0])
        return out

    def listdir(self, p):
        if self.frozen:
            raise SimCrash()
        p = norm(p)
        if p not in self.dirs:
            if p in self.files:
                raise NotADirectoryError(errno.ENOTDIR, "Not a directory", p)
            raise FileNotFoundError(errno.ENOENT, "No such file or directory", p)
        return self._order(self._children(p))

    def glob(self, pat, recursive=False):
        if self.frozen:
            raise SimCrash()
        pat = norm(pat)
        depth = pat.count("/")
        out = [x for x in list(self.dirs) + list(self.files)
               if x.count("/") == depth and fnmatch.fnmatchcase(x, pat)]
        return self._order(out)

    def walk(self, top):
        top = norm(top)
        names = self.listdir(top)
        ds = [n for n in names if posixpath.join(top, n) in self.dirs]
        fs = [n for n in names if posixpath.join(top, n) in self.files]
        yield top, ds, fs
        for d in ds:
            yield from self.walk(posixpath.join(top, d))

    # -- mutating operations ----------------------------------------------
    def makedirs(self, p, mode=0o777, exist_ok=False):
        p = norm(p)
        instr = self._op("makedirs", p)
        if p in self.files:
            raise FileExistsError(errno.EEXIST, "File exists", p)
        if p in self.dirs:
            if exist_ok:
                return
            raise FileExistsError(errno.EEXIST, "File exists", p)
        cur = ""
        for x in p.split("/")[1:]:
            cur += "/" + x
            if cur in self.files:
                raise NotADirectoryError(errno.ENOTDIR, "Not a directory", cur)
            self.dirs.add(cur)
        if instr and instr[0] == "die_after":
            self._die()

    def mkdir(self, p, mode=0o777):
        p = norm(p)
        if posixpath.dirname(p) not in self.dirs:
            raise FileNotFoundError(errno.ENOENT, "No such file or directory", p)
        self.makedirs(p, exist_ok=False)

    def rename(self, a, b):
        a, b = norm(a), norm(b)
        instr = self._op("rename", a, b)
        if a in self.files:
            if b in self.dirs:
                raise IsADirectoryError(errno.EISDIR, "Is a directory", b)
            if posixpath.dirname(b) not in self.dirs:
                raise FileNotFoundError(errno.ENOENT, "No such file or directory", b)
            self.files[b] = self.files.pop(a)
        elif a in self.dirs:
            if b in self.files:
                raise NotADirectoryError(errno.ENOTDIR, "Not a directory", b)
            if b in self.dirs and self._children(b):
                raise OSError(errno.ENOTEMPTY, "Directory not empty", b)
            if posixpath.dirname(b) not in self.dirs:
                raise FileNotFoundError(errno.ENOENT, "No such file or directory", b)
            if b == a or b.startswith(a + "/"):
                raise OSError(errno.EINVAL, "Invalid argument", b)
            for d in [d for d in self.dirs if d == a or d.startswith(a + "/")]:
                self.dirs.discard(d)
                self.dirs.add(b + d[len(a):])
            for f in [f for f in self.files if f.startswith(a + "/")]:
                self.files[b + f[len(a):]] = self.files.pop(f)
        else:
            raise FileNotFoundError(errno.ENOENT, "No such file or directory", a)
        if instr and instr[0] == "die_after":
            self._die()

    replace = rename

    def remove(self, p):
        p = norm(p)
        instr = self._op("remove", p)
        if p in self.dirs:
            raise IsADirectoryError(errno.EISDIR, "Is a directory", p)
        if p not in self.files:
            raise FileNotFoundError(errno.ENOENT, "No such file or directory", p)
        del self.files[p]
        if instr and instr[0] == "die_after":
            self._die()

    unlink = remove

    def rmdir(self, p):
        p = norm(p)
        instr = self._op("rmdir", p)
        if p not in self.dirs:
            raise FileNotFoundError(errno.ENOENT, "No such file or directory", p)
        if self._children(p):
            raise OSError(errno.ENOTEMPTY, "Directory not empty", p)
        self.dirs.discard(p)
        if instr and instr[0] == "die_after":
            self._die()

    def rmtree(self, p, ignore_errors=False, onerror=None):
        """Not atomic: one remove per file, bottom-up rmdir per directory."""
        p = norm(p)
        if p not in self.dirs:
            if ignore_errors:
                return
            raise FileNotFoundError(errno.ENOENT, "No such file or directory", p)
        try:
            for f in self._order([f for f in self.files if f.startswith(p + "/")]):
                self.remove(f)
            subs = sorted([d for d in self.dirs if d.startswith(p + "/")], key=lambda d: -d.count("/"))
            for d in subs:
                self.rmdir(d)
            self.rmdir(p)
        except OSError:
            if not ignore_errors:
                raise

    def move(self, a, b):
        """shutil.move within one file system: a rename (into b if b is a directory)."""
        a, b = norm(a), norm(b)
        if b in self.dirs:
            b = posixpath.join(b, posixpath.basename(a))
            if self.exists(b):
                raise OSError(f"Destination path '{b}' already exists")
        self.rename(a, b)
        return b

    def copytree(self, a, b):
        a, b = norm(a), norm(b)
        self.makedirs(b)
        for d in sorted(d for d in self.dirs if d.startswith(a + "/")):
            self.makedirs(b + d[len(a):], exist_ok=True)
        for f in sorted(f for f in self.files if f.startswith(a + "/")):
            with self.open(b + f[len(a):], "wb") as h:
                h.write(self.files[f])

    # -- file objects ---------------------------------------------------------
    def open(self, p, mode="r", *a, **kw):
        p = norm(p)
        binary = "b" in mode
        if "r" in mode and "+" not in mode:
            instr = self._op("read", p) if self.log_reads else None
            if p in self.dirs:
                raise IsADirectoryError(errno.EISDIR, "Is a directory", p)
            if p not in self.files:
                raise FileNotFoundError(errno.ENOENT, "No such file or directory", p)
            data = self.files[p]
            if instr and instr[0] == "corrupt" and len(data):
                how = instr[1] or ("flip", len(data) // 2)
                if how[0] == "flip":
                    j = how[1] % len(data)
                    data = data[:j] + bytes([data[j] ^ 0x5A]) + data[j + 1:]
                else:
                    data = data[: how[1] % len(data)]
            f = io.BytesIO(data) if binary else io.StringIO(data.decode())
            f.name = p
            return f
        if not any(c in mode for c in "wax"):
            raise ValueError(f"SimFS: unsupported mode {mode}")
        if posixpath.dirname(p) not in self.dirs:
            raise FileNotFoundError(errno.ENOENT, "No such file or directory", p)
        if p in self.dirs:
            raise IsADirectoryError(errno.EISDIR, "Is a directory", p)
        if "x" in mode and p in self.files:
            raise FileExistsError(errno.EEXIST, "File exists", p)
        instr = self._op("open_w", p)
        old = self.files.get(p, b"") if "a" in mode else b""
        self.files[p] = old
        if instr and instr[0] == "die_after":
            self._die()
        fs = self
        base = io.BytesIO if binary else io.StringIO

        class W(base):
            name = p

            def close(self_w):
                if self_w.closed:
                    return
                v = self_w.getvalue()
                super(W, self_w).close()
                if isinstance(v, str):
                    v = v.encode()
                ins = fs._op("write", p, len(v))
                if ins and ins[0] in ("short", "torn"):
                    n = ins[1] if ins[1] is not None else len(v) // 2
                    fs.files[p] = old + v[: n % (len(v) + 1)]
                    if ins[0] == "torn":
                        fs._die()
                    raise OSError(errno.ENOSPC, "injected short write [dst-fault]", p)
                fs.files[p] = old + v
                if ins and ins[0] == "die_after":
                    fs._die()

            def __exit__(self_w, *exc):
                self_w.close()

        return W()

    # -- snapshots ------------------------------------------------------------
    def digest(self, prefix=ROOT):
        h = hashlib.sha1()
        for d in sorted(self.dirs):
            if d.startswith(prefix):
                h.update(b"D" + d.encode() + b"\0")
        for f in sorted(self.files):
            if f.startswith(prefix):
                h.update(b"F" + f.encode() + b"\0" + hashlib.sha1(self.files[f]).digest())
        return h.hexdigest()

    def tree(self, prefix=ROOT):
        return sorted([d + "/" for d in self.dirs if d.startswith(prefix)]
                      + [f for f in self.files if f.startswith(prefix)])

    def clone_state(self):
        return (set(self.dirs), dict(self.files))

    def restore_state(self, st):
        self.dirs, self.files = set(st[0]), dict(st[1])


class SimTemporaryDirectory:
    def __init__(self, fs, suffix=None, prefix=None, dir=None):
        self.fs = fs
        fs.n_tmp = getattr(fs, "n_tmp", 0) + 1
        self.name = f"{ROOT}/tmp/tmp{fs.n_tmp:04d}"
        fs.makedirs(self.name, exist_ok=True)

    def cleanup(self):
        if self.fs.isdir(self.name):
            self.fs.rmtree(self.name)

    def __enter__(self):
        return self.name

    def __exit__(self, *a):
        self.cleanup()
