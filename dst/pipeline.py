"""Run one generated plugin graph through the real strax Context / processors under the simulator."""
import re

import numpy as np

import strax

from . import plugins as P
from . import sched as S
from .core import SimRun, Violation, classify_abort, ihash, jhash
from .simfs import ROOT, SimFS

DATA_DIR = ROOT + "/d0"


def sig_of_exception(e):
    msg = str(e).split("\n")[0]
    msg = re.sub(r"^\{.*\}\s*", "<metadata> ", msg)      # Saver errors start with the whole metadata dict
    msg = re.sub(r"/__simfs__/[^\s'\"]*", "<path>", msg)
    msg = re.sub(r"0x[0-9a-f]+", "#", msg)
    msg = re.sub(r"\d+", "#", msg)
    msg = re.sub(r"H_\w+|n#\w*|s[a-c]\b", "<t>", msg)
    return f"{type(e).__name__}: {msg[:70]}"


def root_cause(e):
    """Innermost exception of a __cause__/__context__ chain."""
    seen = set()
    while True:
        nxt = e.__cause__ or e.__context__
        if nxt is None or id(nxt) in seen:
            return e
        seen.add(id(e))
        e = nxt


def chunk_rows(arr, bounds):
    """Split whole-run rows over chunk bounds (rows never straddle a bound)."""
    assign = P.assign_rows_to_chunks([(int(t), int(e), 0) for t, e in zip(arr["time"], arr["endtime"])], bounds)
    return [arr[assign == i] for i in range(len(bounds) - 1)]


def prestore(ctx, run_id, dtype_name, arr, bounds, frontend=0):
    """Write `arr` as stored data of `dtype_name` in the given chunking, through the real saver."""
    plugin = ctx.get_single_plugin(run_id, dtype_name)
    key = ctx.key_for(run_id, dtype_name)
    saver = ctx.storage[frontend].saver(key, plugin.metadata(run_id, dtype_name))
    parts = chunk_rows(arr, bounds)
    for i, data in enumerate(parts):
        c = strax.Chunk(start=bounds[i], end=bounds[i + 1], data=data, data_type=dtype_name,
                        data_kind=plugin.data_kind_for(dtype_name), dtype=plugin.dtype_for(dtype_name),
                        run_id=run_id, target_size_mb=plugin.chunk_target_size_mb)
        saver.save(c, i)
    saver.close()


def ctx_options(cfg):
    o = {}
    for k in ("allow_lazy", "allow_rechunk", "max_messages", "allow_multiprocess", "timeout",
              "forbid_creation_of", "write_superruns", "allow_incomplete", "fuzzy_for", "fuzzy_for_options"):
        if k in cfg:
            o[k] = cfg[k]
    return o


def check_tiling(chunks, run_start, run_end, require_cover=True):
    """chunks: list of (start, end, data).  Returns a Violation or None."""
    if not chunks:
        return Violation("BAD_TILING", "no chunk yielded")
    prev = None
    for i, (a, b, data) in enumerate(chunks):
        if a > b:
            return Violation("BAD_TILING", "chunk with negative duration", (i, a, b))
        if prev is not None and a != prev:
            return Violation("BAD_TILING", "chunks not contiguous (gap or overlap)", (i, prev, a))
        prev = b
        if len(data):
            if data["time"].min() < a or data["endtime"].max() > b:
                return Violation("BAD_TILING", "row outside the chunk that carries it",
                                 (i, a, b, int(data["time"].min()), int(data["endtime"].max())))
            if np.any(np.diff(data["time"]) < 0):
                return Violation("BAD_TILING", "rows not sorted by time inside a chunk", i)
    if require_cover and (chunks[0][0] != run_start or chunks[-1][1] != run_end):
        return Violation("BAD_TILING", "chunks do not cover the run from start to end",
                         (chunks[0][0], chunks[-1][1], run_start, run_end))
    return None


class PipelineRun:
    """Everything observed in one simulated request."""

    def __init__(self, w, seed, strategy="random", forced=None, strict=False, fs=None,
                 fault=None, max_steps=400_000):
        self.w = w
        self.spec = w["spec"]
        self.cfg = w["cfg"]
        self.run_id = self.spec.get("run_id", "0")
        self.fs = fs if fs is not None else SimFS(order_salt=w.get("fs_order", 0))
        self.R = SimRun(seed, strategy=strategy, forced=forced, strict=strict, fs=self.fs,
                        max_steps=max_steps, est_steps=w.get("est_steps", 600),
                        exec_pick_random=w.get("exec_pick_random", True))
        self.log = []
        self.fault = fault
        self.classes = None
        self.oracle = None
        self.phases = []
        self.ctx = None
        self.mb_states = set()
        self.cap_violation = None
        self.max_buffer = 0

    # ------------------------------------------------------------------
    def build(self, config=None):
        P.reset_spies()
        self.classes, self.ordered = P.build_classes(self.spec, log=self.log, fault=self.fault)
        self.oracle = P.oracle(self.spec, config)
        return self.classes

    def context(self, extra=None, storage=None, config=None):
        opts = ctx_options(self.cfg)
        if extra:
            opts.update(extra)
        st = storage if storage is not None else [strax.DataDirectory(DATA_DIR)]
        return P.make_context(self.ordered, st, config=config, **opts)

    def install_invariants(self):
        sim = self.R.sim

        def hook(sim):
            procs = P.SpyTMP.INSTANCES
            if not procs or self.cap_violation:
                return
            try:
                for proc in procs:
                    for name, m in proc.mailboxes.items():
                        n = len(m._mailbox)
                        if n > self.max_buffer:
                            self.max_buffer = n
                        if not m.lazy and n > m.max_messages:
                            self.cap_violation = Violation(
                                "CAPACITY", "eager mailbox holds more messages than its capacity",
                                f"{name}: {n} > {m.max_messages}")
                        hr = m._subscribers_have_read
                        mr = min(hr) if hr else -1
                        self.mb_states.add(ihash(name, n, tuple(x - mr for x in hr), m.killed, m.closed))
            except AttributeError:
                pass
        sim.step_hooks.append(hook)
        self.hang_diag = None

        def on_hang(sim):
            """Name the wait-for cycle at the moment the scheduler finds nothing runnable."""
            if self.hang_diag is not None:
                return
            self.hang_diag = ""
            try:
                for proc in P.SpyTMP.INSTANCES:
                    conds = {}
                    for key, m in proc.mailboxes.items():
                        for cn in ("_read_condition", "_write_condition", "_fetch_new_condition"):
                            conds[id(getattr(m, cn).threading_condition)] = (key, cn)
                    for t in sim.threads:
                        b = t.blocked_on
                        if not (t.started and not t.finished and b and b[0] == "cond"):
                            continue
                        key, cn = conds.get(id(b[1]), (None, None))
                        if cn == "_fetch_new_condition" and "divide_outputs" in (t.name or "") \
                                and t.name.startswith("read_"):
                            plug = proc.components.plugins.get(key)
                            sibs = [d for d in (plug.provides if plug is not None else ()) if d != key]
                            for d in sibs:
                                sm = proc.mailboxes.get(d)
                                if sm is None:
                                    continue
                                if any(cd and wf is not None and not any(num == wf for num, _ in sm._mailbox)
                                       for cd, wf in zip(sm._subscriber_can_drive, sm._subscriber_waiting_for)):
                                    self.hang_diag = "lazy divide_outputs gate"
            except Exception:
                pass
        sim.on_hang = on_hang

    def get_chunks(self, ctx, targets, **kw):
        cfg = self.cfg
        kw.setdefault("processor", cfg.get("processor", "threaded_mailbox"))
        kw.setdefault("max_workers", cfg.get("max_workers", 1))
        kw.setdefault("progress_bar", False)
        kw.setdefault("multi_run_progress_bar", False)
        out = []
        for c in ctx.get_iter(self.run_id, targets, **kw):
            out.append((c.start, c.end, c.data.copy(), c.subruns))
        return out

    def load_all_stored(self, ctx, types):
        """{type: array} for every type a fresh context reports as stored (must load completely)."""
        got = {}
        for d in types:
            if ctx.is_stored(self.run_id, d):
                got[d] = ctx.get_array(self.run_id, d, processor="single_thread", progress_bar=False)
        return got


def base_result(pr, w, vio, inconclusive=False, extra_probes=None, strategy="random"):
    R = pr.R
    st = R.stats()
    probes = {"max_buffer_len": pr.max_buffer}
    probes.update(extra_probes or {})
    return {
        "verdict": "violation" if vio else ("inconclusive" if inconclusive else "ok"),
        "vio": vio.to_json() if vio else None,
        "trace_hash": R.trace_hash(jhash(w)),
        "nontrivial": st["threads"] >= 2 and st["decisions"] >= 1,
        "stats": st,
        "states": pr.mb_states,
        "probes": probes,
        "strategy": strategy.split(":")[0],
        "replay": {"workload": w, "schedule": list(R.sim.trace), "strategy": strategy},
    }


def common_verdict(pr, out, expect_exception=False):
    """Scheduler-level verdicts shared by all pipeline checks.  Returns (violation|None, inconclusive)."""
    sim = pr.R.sim
    ab = classify_abort(sim)
    if ab == "inconclusive":
        return None, True
    if isinstance(ab, Violation):
        return ab, False
    if pr.cap_violation:
        return pr.cap_violation, False
    if sim.lost_wakeups:
        lw = sim.lost_wakeups[0]
        return Violation("LOST_WAKEUP", f"a thread keeps waiting although its condition holds "
                                        f"({lw['predicate']})", lw), False
    if sim.hangs:
        h = sim.hangs[0]
        who = re.sub(r"\d+", "#", h["fired"])
        diag = getattr(pr, "hang_diag", None)
        if diag:
            return Violation("HANG", f"{diag}: an output nobody waits for yet blocks a sibling output "
                                     f"that a driving reader waits for", h), False
        return Violation("HANG", f"progress only by timeout: {who} waiting on {h['waiting_on']}", h), False
    for nm, e in sim.thread_excs:
        if isinstance(e, S.HarnessError):
            raise e
    if out[0] == "exc" and isinstance(root_cause(out[1]), S.HarnessError):
        raise root_cause(out[1])
    if out[0] == "exc" and isinstance(out[1], S.HarnessError):
        raise out[1]
    return None, False
