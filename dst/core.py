"""Shared helpers: seed derivation, one-run context manager, result records."""
import gc
import hashlib
import json
import logging
import random
import sys
import warnings

from . import sched as S
from . import shims
from .simfs import SimFS

MASK = (1 << 64) - 1


def splitmix(x):
    x = (x + 0x9E3779B97F4A7C15) & MASK
    z = x
    z = ((z ^ (z >> 30)) * 0xBF58476D1CE4E5B9) & MASK
    z = ((z ^ (z >> 27)) * 0x94D049BB133111EB) & MASK
    return z ^ (z >> 31)


def derive(seed, *tags):
    """Independent 64-bit stream seeds from one integer and string/int tags."""
    x = splitmix(int(seed) & MASK)
    for t in tags:
        if isinstance(t, str):
            t = int.from_bytes(hashlib.sha1(t.encode()).digest()[:8], "big")
        x = splitmix(x ^ (int(t) & MASK))
    return x


def rng_for(seed, *tags):
    return random.Random(derive(seed, *tags))


def jhash(obj):
    return hashlib.sha1(json.dumps(obj, sort_keys=True, default=str).encode()).hexdigest()[:16]


def ihash(*parts):
    return int.from_bytes(hashlib.sha1(repr(parts).encode()).digest()[:8], "big")


class Violation(Exception):
    def __init__(self, cls, signature, detail=""):
        super().__init__(f"{cls}: {signature}")
        self.cls = cls
        self.signature = signature
        self.detail = detail

    def to_json(self):
        return {"class": self.cls, "signature": self.signature, "detail": str(self.detail)[:4000]}


_quiet_done = False


def quiet():
    """Logging / warnings of the system under test are discarded (never consulted)."""
    global _quiet_done
    if _quiet_done:
        return
    logging.disable(logging.CRITICAL)
    warnings.simplefilter("ignore")
    _quiet_done = True


class SimRun:
    """One simulated execution: scheduler + clock + (optional) SimFS with seams installed.

    with SimRun(seed, strategy=..., forced=...) as R:
        out = R.main(lambda: body())
    R.alive  -> names of sim threads that had not finished when main returned
    """

    def __init__(self, seed, strategy="random", forced=None, strict=False, fs=None,
                 with_fs=False, max_steps=200_000, est_steps=400, exec_pick_random=True):
        self.sim = S.Sim(seed=seed, strategy=strategy, forced=forced, strict=strict,
                         max_steps=max_steps, est_steps=est_steps)
        self.sim.counters["_exec_pick_random"] = 1 if exec_pick_random else 0
        if fs is None and with_fs:
            fs = SimFS()
        self.fs = fs
        self.alive = []
        self.out = None
        self.seams = None

    def __enter__(self):
        quiet()
        gc.disable()
        self.sim.register_main()
        self.seams = shims.install(self.sim, self.fs)
        return self

    def main(self, fn, drain=False):
        sim = self.sim
        self.out = sim.run_main(fn)
        self.alive_at_return = [t.name for t in sim.live_threads()]
        if drain and not sim.aborting:
            try:
                sim.drain()
            except S.SimAbort:
                pass
        return self.out

    def __exit__(self, et, ev, tb):
        try:
            self.alive = self.sim.finish()
            # Finalise suspended generators of this run NOW, while the seams are still installed and the
            # simulator is in abort mode (every sim primitive raises SimAbort at once).  Otherwise their
            # `finally:` blocks (Plugin.iter -> cleanup -> Saver.close -> wait ...) would run at some later
            # garbage collection, outside any simulation, against the real primitives.
            mine = not self.sim.aborting
            if mine:
                self.sim._set_abort("teardown")
            hook = sys.unraisablehook
            sys.unraisablehook = lambda *a: None
            try:
                gc.collect()
            finally:
                sys.unraisablehook = hook
                if mine:
                    self.sim.aborting = None
        finally:
            shims.uninstall()
            if self.fs is not None:
                self.fs.sim = None
            pass
        return False

    # -- summaries -------------------------------------------------------
    def stats(self):
        sim = self.sim
        c = {k: v for k, v in sim.counters.items() if not k.startswith("_")}
        return {
            "steps": sim.steps,
            "decisions": sim.decisions,
            "threads": len(sim.threads),
            "sim_time": sim.now - S.EPOCH,
            "hangs": len(sim.hangs),
            "timeouts_fired": sim.timeouts_fired,
            "sleep_jumps": sim.sleep_jumps,
            "abort": sim.aborting,
            "counters": c,
            "fs_ops": len(self.fs.ops) if self.fs is not None else 0,
            "faults_fired": [f[0] for f in self.fs.fired] if self.fs is not None else [],
        }

    def trace_hash(self, workload_digest=""):
        return ihash(workload_digest, tuple(self.sim.trace))


def classify_abort(sim):
    """Turn a scheduler abort into a violation class (or None for crash)."""
    a = sim.aborting
    if a in (None, "crash", "teardown"):
        return None
    if a == "deadlock":
        return Violation("DEADLOCK", "no thread runnable and no timer pending",
                         detail=sim.abort_detail)
    if a == "stepcap":
        return "inconclusive"
    if a == "diverged":
        raise S.ReplayDiverged(str(sim.abort_detail))
    return None
