"""Seams: replace module-level bindings inside strax by simulator-owned objects.

No source hook is needed: strax looks up ``threading``, ``time``, ``os`` ... as
module globals at call time, so assigning the module attribute is enough.  The
installer *scans* every loaded ``strax.*`` module and replaces bindings by
identity, so moving an import between modules does not silently disable a seam.
"""
import builtins
import concurrent.futures as _cf
import glob as _glob
import hashlib as _hashlib
import os as _os
import pickle
import posixpath as _pp
import shutil as _shutil
import sys
import tempfile as _tempfile
import threading as _threading
import time as _time
import types
from collections import namedtuple

from . import sched as S
from . import simfs as FSM

_real_open = builtins.open
_real_sleep = _time.sleep
_real_thread_start = _threading.Thread.start
_real_tpe_init = _cf.ThreadPoolExecutor.__init__
_real_ppe_init = _cf.ProcessPoolExecutor.__init__


class _Ctx:
    sim = None
    fs = None
    installed = False
    saved = []
    executors = 0
    set_salt = 0


CTX = _Ctx()


# ---------------------------------------------------------------------------
# threading / time
# ---------------------------------------------------------------------------
class ThreadingShim:
    TIMEOUT_MAX = _threading.TIMEOUT_MAX

    def __init__(self, sim):
        self._sim = sim

    def RLock(self):
        return S.SimRLock(self._sim)

    def Lock(self):
        return S.SimLock(self._sim)

    def Condition(self, lock=None):
        return S.SimCondition(self._sim, lock)

    def Event(self):
        return S.SimEvent(self._sim)

    def Thread(self, group=None, target=None, name=None, args=(), kwargs=None, *, daemon=None):
        return S.SimThread(self._sim, target=target, name=name, args=args, kwargs=kwargs, daemon=daemon)

    def current_thread(self):
        return self._sim.current

    def main_thread(self):
        return self._sim.threads[0]

    def get_ident(self):
        return self._sim.current.tid

    def active_count(self):
        return 1 + len(self._sim.live_threads())

    def enumerate(self):
        return [self._sim.threads[0]] + self._sim.live_threads()

    def __getattr__(self, name):
        raise S.HarnessEscape(f"strax used threading.{name}, which the simulator does not model")


class TimeShim:
    def __init__(self, sim):
        self._sim = sim

    def time(self):
        return self._sim.now

    def monotonic(self):
        # a real monotonic clock never returns the same value twice; strax divides by differences
        self._ticks = getattr(self, "_ticks", 0) + 1
        return self._sim.now - S.EPOCH + self._ticks * 1e-6

    perf_counter = monotonic

    def time_ns(self):
        return int(self._sim.now * 1e9)

    def sleep(self, dt):
        self._sim.sleep(dt)

    def __getattr__(self, name):
        return getattr(_time, name)


# ---------------------------------------------------------------------------
# futures / executors
# ---------------------------------------------------------------------------
def _wake_future_waiters(sim, fut):
    def pred(t):
        b = t.blocked_on
        if b is None:
            return False
        if b[0] == "future":
            return b[1] is fut
        if b[0] == "futwait":
            return fut in b[1]
        return False
    sim._wake(pred)


class SimFuture(_cf.Future):
    sim_name = "future"

    def __init__(self):
        super().__init__()
        # identity hash would make the iteration order of sets of futures (wait() results) depend on memory
        # addresses: a creation counter per simulation keeps it a function of the seed
        sim = CTX.sim
        if sim is not None:
            sim.counters["futures_created"] += 1
            self._h = sim.counters["futures_created"]
        else:
            self._h = id(self) >> 4

    def __hash__(self):
        return self._h

    def __eq__(self, other):
        return self is other

    def _sim(self):
        return CTX.sim

    def _done(self):
        return _cf.Future.done(self)

    def done(self):
        # asking a future whether it is done is a pre-emption point: code that looks twice ("if f.done(): ...",
        # then "[f for f in pending if not f.done()]") has a window in which a worker completes the future
        sim = CTX.sim
        if sim is not None and sim.current is not None and not sim.aborting and len(sim.threads) > 1:
            sim.yield_point("fdone")
        return _cf.Future.done(self)

    def result(self, timeout=None):
        sim = CTX.sim
        if sim is None or self._done():
            return super().result(timeout=0 if sim is not None else timeout)
        end = None if timeout is None else sim.now + timeout
        while not self._done():
            left = None if end is None else end - sim.now
            if left is not None and left <= 0:
                raise _cf.TimeoutError()
            sim.block(("future", self), left)
        return super().result(timeout=0)

    def exception(self, timeout=None):
        sim = CTX.sim
        if sim is not None and not self._done():
            try:
                self.result(timeout)
            except _cf.TimeoutError:
                raise
            except BaseException as e:  # noqa
                if isinstance(e, S.SimAbort):
                    raise
        return super().exception(timeout=0)

    def set_result(self, r):
        super().set_result(r)
        if CTX.sim is not None:
            _wake_future_waiters(CTX.sim, self)

    def set_exception(self, e):
        super().set_exception(e)
        if CTX.sim is not None:
            _wake_future_waiters(CTX.sim, self)


DoneAndNotDone = namedtuple("DoneAndNotDoneFutures", "done not_done")


def sim_wait(fs, timeout=None, return_when=_cf.ALL_COMPLETED):
    sim = CTX.sim
    fs = set(fs)
    end = None if timeout is None else sim.now + timeout

    def ready():
        done = {f for f in fs if _cf.Future.done(f)}
        if len(done) == len(fs):
            return done
        if return_when == _cf.FIRST_COMPLETED and done:
            return done
        if return_when == _cf.FIRST_EXCEPTION and any(
                (not f.cancelled()) and f.exception(0) is not None for f in done):
            return done
        return None

    sim.yield_point("futwait")
    while True:
        d = ready()
        if d is not None:
            return DoneAndNotDone(d, fs - d)
        left = None if end is None else end - sim.now
        if left is not None and left <= 0:
            d = {f for f in fs if _cf.Future.done(f)}
            return DoneAndNotDone(d, fs - d)
        sim.block(("futwait", fs), left)


def sim_as_completed(fs, timeout=None):
    pending = set(fs)
    while pending:
        done, pending = sim_wait(pending, timeout=timeout, return_when=_cf.FIRST_COMPLETED)
        for f in sorted(done, key=lambda f: getattr(f, "sim_seq", 0)):
            yield f


class SimExecutor:
    """ThreadPoolExecutor stand-in: workers are sim threads; task pick-up order is a
    scheduler decision (recorded), so futures complete in every order."""

    isolate = False   # True: pickle round trip (process-pool stub)
    kind = "thread"

    def __init__(self, max_workers=None, *a, **kw):
        sim = CTX.sim
        if sim is None:
            raise S.HarnessError("SimExecutor created outside a simulation")
        self.sim = sim
        self.max_workers = max_workers or 4
        self.queue = []
        self.workers = []
        self.down = False
        CTX.executors += 1
        self.eid = CTX.executors
        self.pick_random = sim.counters.get("_exec_pick_random", 1)
        self.n_submitted = 0
        sim.counters[f"executors_{self.kind}"] += 1

    def submit(self, fn, *a, **kw):
        sim = self.sim
        if self.down:
            raise RuntimeError("cannot schedule new futures after shutdown")
        if sim.aborting:
            raise sim.abort_exc()
        f = SimFuture()
        self.n_submitted += 1
        f.sim_seq = self.n_submitted
        if self.isolate:
            payload = pickle.dumps((fn, a, kw))
            self.queue.append((f, payload, None, None))
        else:
            self.queue.append((f, fn, a, kw))
        idle = [w for w in self.workers if w.blocked_on is not None and w.blocked_on[0] == "idle"]
        if idle:
            idle[0].blocked_on = None
            sim.yield_point("submit")
        elif len(self.workers) < self.max_workers:
            t = S.SimThread(sim, target=self._work, name=f"pool{self.eid}-{len(self.workers)}")
            self.workers.append(t)
            t.start()
        else:
            sim.yield_point("submit")
        return f

    def _work(self):
        init = getattr(self.sim, "worker_init", None)
        if init is not None:
            init()
        try:
            self._work_loop()
        finally:
            done = getattr(self.sim, "worker_exit", None)
            if done is not None:
                done()

    def _work_loop(self):
        sim = self.sim
        while True:
            while not self.queue:
                if self.down:
                    return
                sim.block(("idle", self), None)
            i = sim.choose(len(self.queue), "pool-pick") if self.pick_random else 0
            f, fn, a, kw = self.queue.pop(i)
            if not f.set_running_or_notify_cancel():
                continue
            try:
                if self.isolate:
                    fn, a, kw = pickle.loads(fn)
                    r = pickle.loads(pickle.dumps(fn(*a, **kw)))
                else:
                    r = fn(*a, **kw)
            except S.SimAbort:
                raise
            except BaseException as e:  # noqa
                if self.isolate:
                    try:
                        e = pickle.loads(pickle.dumps(e))
                    except Exception:
                        e = RuntimeError(f"unpicklable exception from worker: {e!r}")
                f.set_exception(e)
            else:
                f.set_result(r)
            sim.counters["pool_tasks"] += 1
            sim.yield_point("pool-done")

    def shutdown(self, wait=True, *, cancel_futures=False):
        sim = self.sim
        self.down = True
        if cancel_futures:
            for f, *_ in self.queue:
                f.cancel()
            self.queue = []
        for w in self.workers:
            if w.blocked_on is not None and w.blocked_on[0] == "idle":
                w.blocked_on = None
        if wait:
            for w in self.workers:
                if w is not sim.current:
                    w.join()

    def __enter__(self):
        return self

    def __exit__(self, *exc):
        self.shutdown(wait=True)
        return False


class SimProcessPool(SimExecutor):
    """Stub for ProcessPoolExecutor / SHMExecutor: no OS process, but callable,
    arguments, result and exceptions cross a pickle boundary, so workers see copies."""
    isolate = True
    kind = "process_stub"


class FuturesShim:
    ThreadPoolExecutor = SimExecutor
    ProcessPoolExecutor = SimProcessPool
    Future = SimFuture
    wait = staticmethod(sim_wait)
    as_completed = staticmethod(sim_as_completed)

    def __getattr__(self, name):
        return getattr(_cf, name)


# ---------------------------------------------------------------------------
# file system
# ---------------------------------------------------------------------------
def _fs():
    fs = CTX.fs
    if fs is None:
        raise S.HarnessEscape("simulated path used but no SimFS installed")
    return fs


def _no_print(*a, **kw):
    pass


def sim_open(file, mode="r", *a, **kw):
    if FSM.is_sim(file):
        return _fs().open(file, mode, *a, **kw)
    return _real_open(file, mode, *a, **kw)


def _dispatch(simname, real):
    def f(p, *a, **kw):
        if FSM.is_sim(p):
            return getattr(_fs(), simname)(p, *a, **kw)
        return real(p, *a, **kw)
    f.__name__ = simname
    return f


def _dispatch2(simname, real):
    def f(a, b, *rest, **kw):
        sa, sb = FSM.is_sim(a), FSM.is_sim(b)
        if sa and sb:
            return getattr(_fs(), simname)(a, b, *rest, **kw)
        if sa or sb:
            raise S.HarnessEscape(f"{simname} between simulated and real path: {a} {b}")
        return real(a, b, *rest, **kw)
    f.__name__ = simname
    return f


class PathShim:
    exists = staticmethod(_dispatch("exists", _pp.exists))
    isdir = staticmethod(_dispatch("isdir", _pp.isdir))
    isfile = staticmethod(_dispatch("isfile", _pp.isfile))
    getsize = staticmethod(_dispatch("getsize", _pp.getsize))
    getmtime = staticmethod(_dispatch("getmtime", _pp.getmtime))

    def __getattr__(self, name):
        return getattr(_pp, name)


class OsShim:
    path = PathShim()
    makedirs = staticmethod(_dispatch("makedirs", _os.makedirs))
    mkdir = staticmethod(_dispatch("mkdir", _os.mkdir))
    listdir = staticmethod(_dispatch("listdir", _os.listdir))
    remove = staticmethod(_dispatch("remove", _os.remove))
    unlink = staticmethod(_dispatch("remove", _os.unlink))
    rmdir = staticmethod(_dispatch("rmdir", _os.rmdir))
    access = staticmethod(_dispatch("access", _os.access))
    walk = staticmethod(_dispatch("walk", _os.walk))
    rename = staticmethod(_dispatch2("rename", _os.rename))
    replace = staticmethod(_dispatch2("rename", _os.replace))

    def __getattr__(self, name):
        return getattr(_os, name)


class ShutilShim:
    rmtree = staticmethod(_dispatch("rmtree", _shutil.rmtree))
    move = staticmethod(_dispatch2("move", _shutil.move))
    copytree = staticmethod(_dispatch2("copytree", _shutil.copytree))

    def __getattr__(self, name):
        return getattr(_shutil, name)


class GlobShim:
    glob = staticmethod(_dispatch("glob", _glob.glob))

    def __getattr__(self, name):
        return getattr(_glob, name)


class TempfileShim:
    @staticmethod
    def TemporaryDirectory(*a, **kw):
        if CTX.fs is not None:
            return FSM.SimTemporaryDirectory(CTX.fs, *a, **kw)
        return _tempfile.TemporaryDirectory(*a, **kw)

    def __getattr__(self, name):
        return getattr(_tempfile, name)


# ---------------------------------------------------------------------------
# canaries
# ---------------------------------------------------------------------------
def _caller_is_strax(depth=2):
    f = sys._getframe(depth)
    for _ in range(6):
        if f is None:
            return False
        mod = f.f_globals.get("__name__", "")
        if mod.startswith("strax"):
            return True
        if mod.startswith("dst"):
            return False
        f = f.f_back
    return False


def _canary_thread_start(self, *a, **kw):
    if CTX.installed and _caller_is_strax():
        raise S.HarnessEscape("real threading.Thread.start reached from strax during a simulation")
    return _real_thread_start(self, *a, **kw)


def _canary_sleep(dt):
    if CTX.installed and _caller_is_strax():
        raise S.HarnessEscape("real time.sleep reached from strax during a simulation")
    return _real_sleep(dt)


def _canary_tpe_init(self, *a, **kw):
    if CTX.installed and _caller_is_strax():
        raise S.HarnessEscape("real ThreadPoolExecutor created from strax during a simulation")
    return _real_tpe_init(self, *a, **kw)


def _canary_ppe_init(self, *a, **kw):
    if CTX.installed and _caller_is_strax():
        raise S.HarnessEscape("real ProcessPoolExecutor created from strax during a simulation")
    return _real_ppe_init(self, *a, **kw)


# ---------------------------------------------------------------------------
def strax_modules():
    return [m for n, m in sorted(sys.modules.items())
            if (n == "strax" or n.startswith("strax.")) and isinstance(m, types.ModuleType)]


_PLAIN = (str, int, float, bytes, tuple, bool, type(None), frozenset)


def _det_key(x):
    if isinstance(x, _PLAIN) or type(x).__repr__ is not object.__repr__:
        body = repr(x)
    else:
        body = type(x).__qualname__
    salt = CTX.set_salt
    return body if salt == 0 else _hashlib.md5(f"{salt}:{body}".encode()).digest().hex()


class DetSet(set):
    """`set` as seen by strax's planning code: iteration order is a permutation keyed by the run's seed.

    strax iterates over sets of data-type names (`list(set(targets))`, `tuple(pendants - set(loaders))[:1]`,
    the savers to create ...): with a plain set that order depends on PYTHONHASHSEED, a source of legal
    nondeterminism the simulator has to own.
    """

    def __iter__(self):
        items = list(set.__iter__(self))
        try:
            items.sort(key=_det_key)
        except Exception:       # noqa: unsortable keys keep the underlying order
            pass
        return iter(items)

    def pop(self):
        for x in self:
            self.discard(x)
            return x
        raise KeyError("pop from an empty set")

    def copy(self):
        return DetSet(set.__iter__(self))

    def __reduce__(self):
        return (set, (list(set.__iter__(self)),))


def _det_binop(name):
    base = getattr(set, name)

    def op(self, *others):
        r = base(self, *others)
        return DetSet(set.__iter__(r)) if isinstance(r, set) else r
    op.__name__ = name
    return op


for _n in ("__sub__", "__rsub__", "__or__", "__ror__", "__and__", "__rand__", "__xor__", "__rxor__", "union",
           "intersection", "difference", "symmetric_difference"):
    setattr(DetSet, _n, _det_binop(_n))

SET_SEAM_MODULES = ("strax.context", "strax.processors.threaded_mailbox", "strax.processors.post_office",
                    "strax.processors.single_thread", "strax.plugins.parrallel_source_plugin", "strax.run_selection")


def install(sim, fs=None):
    """Route every nondeterminism seam of strax to the simulator."""
    if CTX.installed:
        raise S.HarnessError("simulator already installed")
    import strax  # noqa: make sure modules are loaded
    CTX.sim, CTX.fs, CTX.executors = sim, fs, 0
    if fs is not None:
        fs.attach(sim)
    table = [
        (_threading, ThreadingShim(sim)),
        (_time, TimeShim(sim)),
        (_os, OsShim()),
        (_pp, OsShim.path),
        (_shutil, ShutilShim()),
        (_glob, GlobShim()),
        (_tempfile, TempfileShim()),
        (_cf, FuturesShim()),
        (_cf.ThreadPoolExecutor, SimExecutor),
        (_cf.ProcessPoolExecutor, SimProcessPool),
        (_cf.wait, sim_wait),
        (_cf.as_completed, sim_as_completed),
    ]
    saved = []
    seams = set()
    for m in strax_modules():
        d = vars(m)
        for k in list(d):
            v = d[k]
            for real, shim in table:
                if v is real:
                    saved.append((m, k, v, True))
                    d[k] = shim
                    seams.add(f"{m.__name__}.{k}")
                    break
        had = "open" in d
        saved.append((m, "open", d.get("open"), had))
        d["open"] = sim_open
        had = "print" in d
        saved.append((m, "print", d.get("print"), had))
        d["print"] = _no_print
        if m.__name__ in SET_SEAM_MODULES:
            had = "set" in d
            saved.append((m, "set", d.get("set"), had))
            d["set"] = DetSet
            seams.add(f"{m.__name__}.set")
    CTX.set_salt = (getattr(sim, "seed", 0) or 0) % 5
    # tuning knob: the read buffer of the streaming decompressors (64 MiB by default, far above any simulated chunk,
    # so the "several reads per file" path would never run): per run the default or a tiny size
    import strax.io as _sio
    knobs = [f for f in (getattr(_sio, n, None) for n in ("_bz2_decompress", "_lz4_decompress", "_zstd_decompress"))
             if f is not None and f.__defaults__ and len(f.__defaults__) == 1]
    CTX.saved_defaults = [(f, f.__defaults__) for f in knobs]
    size = (None, 7, 64, 1000)[((getattr(sim, "seed", 0) or 0) // 5) % 4]
    if size is not None:
        for f in knobs:
            f.__defaults__ = (size,)
    sim.counters["decompress_buffer_small"] = int(size is not None)
    CTX.saved = saved
    CTX.seams = sorted(seams)
    _threading.Thread.start = _canary_thread_start
    _time.sleep = _canary_sleep
    _cf.ThreadPoolExecutor.__init__ = _canary_tpe_init
    _cf.ProcessPoolExecutor.__init__ = _canary_ppe_init
    CTX.installed = True
    return CTX.seams


def uninstall():
    if not CTX.installed:
        return
    for f, d in getattr(CTX, "saved_defaults", []):
        f.__defaults__ = d
    CTX.saved_defaults = []
    for m, k, v, had in reversed(CTX.saved):
        if had:
            vars(m)[k] = v
        else:
            vars(m).pop(k, None)
    CTX.saved = []
    _threading.Thread.start = _real_thread_start
    _time.sleep = _real_sleep
    _cf.ThreadPoolExecutor.__init__ = _real_tpe_init
    _cf.ProcessPoolExecutor.__init__ = _real_ppe_init
    CTX.installed = False
    CTX.sim = None
    CTX.fs = None


REQUIRED_SEAMS = (
    "strax.mailbox.threading",
    "strax.plugins.plugin.time",
    "strax.storage.common.time",
    "strax.storage.common.wait",
    "strax.storage.files.os",
    "strax.storage.files.shutil",
    "strax.storage.files.glob",
    "strax.io.os",
    "strax.processors.threaded_mailbox.futures",
    "strax.processors.threaded_mailbox.ProcessPoolExecutor",
    "strax.utils.ThreadPoolExecutor",
    "strax.utils.wait",
)


def check_seams(seams):
    """A refactor that hides a seam must show up as a harness error, not as a verdict."""
    missing = [s for s in REQUIRED_SEAMS if s not in seams]
    return missing
