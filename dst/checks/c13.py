"""C13 - production is limited by demand and buffer capacity (backpressure).

The consumer (sim thread 0) pulls k chunks from get_iter and parks; the scheduler runs
everybody else until quiescence; Q = number of source compute calls so far.  The same
seed with a run twice as long must reach the identical Q (< N): until the source is
exhausted the two executions are indistinguishable, so no hand-derived bound is needed.
"""
from .. import plugins as P
from .. import sched as S
from ..core import Violation, rng_for, ihash, jhash
from ..pipeline import PipelineRun, base_result, common_verdict, sig_of_exception
from . import c01

PROPERTY = "C13"
LEVEL = "exploration"
QUICK_RUNS = 2500
THOROUGH_RUNS = 60_000
QUICK_BUDGET_S = 110
BATCH = 20
SMOKE_RUNS = 4
DETERMINISM_RUNS = 30
COMPONENTS = dict(c01.COMPONENTS)
RULE = ("one evaluation = one sample = two seeded simulated executions (N and 2N source chunks, same seed, "
        "same strategy); non-trivial = threaded processor with at least one multi-candidate scheduling "
        "decision; distinct = different hash of (workload, schedule trace of the N run)")


def make_source(n_chunks, r_rows):
    rows, bounds = [], [0]
    for i in range(n_chunks):
        t = 20 * i
        for j in range(r_rows[i % len(r_rows)]):
            rows.append([t + 1 + 3 * j, t + 3 + 3 * j, (7 * len(rows) + 3) % 50])
        bounds.append(t + 20)
    return {"name": "sa", "kind": "source", "rows": rows, "bounds": bounds}


def gen(seed, tier):
    r = rng_for(seed, "workload")
    shape = r.choice(["chain", "chain", "diamond", "multi_discard", "multi_both"])
    nodes = []
    opts_save = lambda: r.choice(["ALWAYS", "NEVER", "NEVER"])
    if shape == "chain":
        depth = r.randint(1, 4)
        prev = "sa"
        for i in range(depth):
            kind = r.choice(["rowmap", "rowmap", "filter"])
            n = {"name": f"n{i}", "kind": kind, "dep": prev}
            n.update({"a": 2, "b": i} if kind == "rowmap" else {"m": 3, "r": i % 3})
            nodes.append(n)
            prev = f"n{i}"
        target = prev
    elif shape == "diamond":
        nodes = [{"name": "n0", "kind": "rowmap", "dep": "sa", "a": 1, "b": 1},
                 {"name": "n1", "kind": "rowmap", "dep": "sa", "a": 3, "b": 0},
                 {"name": "n2", "kind": "merge2", "deps": ["n0", "n1"]}]
        if r.random() < 0.5:
            nodes.append({"name": "n3", "kind": "rowmap", "dep": "n2", "a": 1, "b": 5})
        target = nodes[-1]["name"]
    elif shape == "multi_discard":
        nodes = [{"names": ["n0x", "n0y"], "kind": "multi", "dep": "sa"}]
        target = r.choice(["n0x", "n0y"])
        if r.random() < 0.5:
            nodes.append({"name": "n1", "kind": "rowmap", "dep": target, "a": 1, "b": 2})
            target = "n1"
    else:
        nodes = [{"names": ["n0x", "n0y"], "kind": "multi", "dep": "sa"},
                 {"name": "n1", "kind": "loop", "deps": ["n0x", "n0y"]}]
        target = "n1"
    for n in nodes:
        if n["kind"] == "multi":
            n["opts"] = {"save_when": {d: opts_save() for d in n["names"]}, "rechunk_on_save": False}
        else:
            n["opts"] = {"save_when": opts_save(), "rechunk_on_save": r.random() < 0.3}
    cap = r.randint(1, 4)
    lazy = r.random() < 0.5
    workers = 1
    if not lazy and r.random() < 0.25:
        workers = 2
        for n in nodes:
            if n["kind"] in ("rowmap", "filter", "merge2", "multi"):
                n["opts"]["parallel"] = r.random() < 0.7
    k = r.choice([0, 1, 2, 3, 5])
    n_boxes = sum(len(P.names_of(n)) for n in nodes) + 1 + sum(1 for n in nodes if n["kind"] == "multi")
    N = 2 * (k + n_boxes * (cap + 3 + workers)) + 4
    w = {"shape": shape, "nodes": nodes, "target": target, "N": N, "k": k,
         "src_opts": {"save_when": opts_save(), "rechunk_on_save": False},
         "rows_per_chunk": [r.choice([0, 1, 1, 2]) for _ in range(5)],
         "cfg": {"processor": "threaded_mailbox", "max_workers": workers, "allow_lazy": lazy,
                 "allow_rechunk": True, "max_messages": cap},
         "after": r.choice(["drain", "drain", "close"]),
         "est_steps": 2000, "stored": {}}
    return w


def spec_for(w, n_chunks):
    src = make_source(n_chunks, w["rows_per_chunk"])
    src["opts"] = dict(w["src_opts"])
    return {"run_id": "0", "nodes": [src] + [dict(n) for n in w["nodes"]]}


def one_execution(w, n_chunks, seed, strategy, forced, strict):
    ww = dict(w, spec=spec_for(w, n_chunks))
    pr = PipelineRun(ww, seed, strategy=strategy, forced=forced, strict=strict)
    res = {"gate": []}
    k = w["k"]

    def gate_check(plugin, chunk_i):
        procs = P.SpyTMP.INSTANCES
        if not procs:
            return
        m = procs[-1].mailboxes.get("sa")
        try:
            if m is None or not m.lazy or m.killed:
                return      # after a kill the gate is open on purpose (send() then drops the message)
            ok = any(cd and wf is not None and not any(num == wf for num, _ in m._mailbox)
                     for cd, wf in zip(m._subscriber_can_drive, m._subscriber_waiting_for))
            res["gate"].append((chunk_i, ok, list(m._subscriber_waiting_for), [x[0] for x in m._mailbox]))
        except AttributeError:
            res["gate_disabled"] = True

    def body():
        pr.build()
        pr.classes["sa"].H_GATE = staticmethod(gate_check)
        ctx = pr.context()
        pr.install_invariants()
        it = ctx.get_iter(pr.run_id, w["target"], processor="threaded_mailbox",
                          max_workers=w["cfg"]["max_workers"], progress_bar=False)
        got = []
        for _ in range(k):
            got.append(next(it).data.copy())
        if k == 0:
            pass   # generator not started: nothing may run at all
        pr.R.sim.park_until_quiescent()
        res["Q"] = sum(1 for rec in pr.log if rec[0] == "sa")
        res["trace_at_q"] = len(pr.R.sim.trace)
        res["steps_at_q"] = pr.R.sim.steps
        if w["after"] == "drain":
            for c in it:
                got.append(c.data.copy())
            res["got"] = got
        else:
            try:
                it.close()
            except Exception as e:
                res["close_exc"] = repr(e)[:100]
            # whatever the stages still do after the consumer has gone happens before their threads end
            pr.R.sim.park_until_quiescent()
            res["Q_after_close"] = sum(1 for rec in pr.log if rec[0] == "sa")
        res["alive"] = [t.name for t in pr.R.sim.live_threads()]
        return True

    with pr.R:
        out = pr.R.main(body)
    return pr, out, res


def execute(w, seed, strategy="random", forced=None, strict=False, forced2=None):
    import numpy as np
    N = w["N"]
    pr1, out1, r1 = one_execution(w, N, seed, strategy, forced, strict)
    vio, inconclusive = common_verdict(pr1, out1)
    pr2 = None
    r2 = {}
    if vio is None and not inconclusive:
        if out1[0] == "exc":
            vio = Violation("EXC", f"N run: {sig_of_exception(out1[1])}", repr(out1[1])[:600])
    if vio is None and not inconclusive:
        # second execution: same seed, same strategy, the schedule prefix up to quiescence is forced
        prefix = list(pr1.R.sim.trace[: r1["trace_at_q"]])
        pr2, out2, r2 = one_execution(w, 2 * N, seed, strategy,
                                      forced2 if forced2 is not None else None, False)
        v2, inc2 = common_verdict(pr2, out2)
        if v2 is not None:
            vio = v2
        elif inc2:
            inconclusive = True
        elif out2[0] == "exc":
            vio = Violation("EXC", f"2N run: {sig_of_exception(out2[1])}", repr(out2[1])[:600])
        else:
            same_prefix = list(pr2.R.sim.trace[: r2["trace_at_q"]]) == prefix
            q1, q2 = r1["Q"], r2["Q"]
            if q1 >= N:
                vio = Violation("UNBOUNDED", "the whole run was produced although the consumer stopped pulling",
                                f"Q(N)={q1} N={N} k={w['k']} cap={w['cfg']['max_messages']}")
            elif q1 != q2 and same_prefix:
                vio = Violation("UNBOUNDED", "production after the consumer stopped depends on the run length",
                                f"Q(N)={q1} Q(2N)={q2} N={N}")
            elif not same_prefix and forced is None:
                # schedules diverged before quiescence although nothing distinguishes the runs
                vio = Violation("DIVERGED", "N and 2N executions differ before the source is exhausted",
                                f"Q(N)={q1} Q(2N)={q2}")
    if vio is None and not inconclusive and w["cfg"]["allow_lazy"] and w["cfg"]["max_workers"] == 1:
        # Lazy mode: demand is the only thing that advances a source, and demand reaches it through every stage
        # (mailbox fetch gates, the gate of divide_outputs).  The graphs of this check contain no plugin that needs
        # input beyond the chunk it is asked for, so when the consumer has taken k chunks and waits for nothing,
        # exactly k source chunks have been asked for by a reader that was (transitively) waiting.
        for rr, tag in ((r1, "N"), (r2, "2N")):
            if rr.get("Q", 0) > w["k"]:
                vio = Violation("LAZY_OVERRUN", "lazy mode: source chunks were computed that no waiting reader "
                                                "had asked for (production ran ahead of the consumer's demand)",
                                f"{tag}: Q={rr['Q']} after the consumer took k={w['k']} chunks, "
                                f"cap={w['cfg']['max_messages']}, shape={w['shape']}")
                break
    if vio is None and not inconclusive:
        for rr, tag in ((r1, "N"), (r2, "2N")):
            bad = [g for g in rr.get("gate", []) if not g[1]]
            if bad:
                vio = Violation("LAZY_GATE", "source advanced while no driving reader was waiting for a "
                                             "missing message", f"{tag}: {bad[:3]}")
                break
    if vio is None and not inconclusive and w["after"] == "drain":
        exp = pr1.oracle[w["target"]]
        got = np.concatenate(r1["got"]) if r1["got"] else exp[:0]
        if not P.rows_equal(got, exp):
            vio = Violation("WRONG_ROWS", "rows differ after resuming the paused consumer", P.describe_diff(got, exp))
        elif r1["alive"]:
            vio = Violation("THREADS_ALIVE", "threads alive after draining", r1["alive"])
    if vio is None and not inconclusive and w["after"] == "close" and r1.get("alive"):
        vio = Violation("THREADS_ALIVE", "threads alive after closing the paused iterator", r1["alive"])
    if vio is None and not inconclusive and w["after"] == "close":
        # the pipeline was at rest when the iterator was closed: closing it stops production, it does not let
        # the source run through the rest of the run with its output thrown away (one chunk of slack per stage)
        for rr, tag, n in ((r1, "N", N), (r2, "2N", 2 * N)):
            extra = rr.get("Q_after_close", rr.get("Q", 0)) - rr.get("Q", 0)
            if extra > len(w["nodes"]) + 2:
                vio = Violation("RUNS_ON_AFTER_CLOSE", "the source kept computing after the consumer closed the "
                                                       "iterator (its output is dropped)",
                                f"{tag}: {extra} further source chunks after close, {rr['Q']} before, run of {n}")
                break
    r = base_result(pr1, w, vio, inconclusive, strategy=strategy,
                    extra_probes={"max_Q": r1.get("Q", 0), "lazy_runs": int(w["cfg"]["allow_lazy"]),
                                  "gate_checks": len(r1.get("gate", [])) + len(r2.get("gate", [])),
                                  "quiescence_reached": pr1.R.sim.quiescent_hits + (pr2.R.sim.quiescent_hits if pr2 else 0),
                                  "max_buffer_len": max(pr1.max_buffer, pr2.max_buffer if pr2 else 0)})
    if pr2 is not None:
        r["states"] = r["states"] | pr2.mb_states
    r["sub_evaluations"] = 2 if pr2 is not None else 1
    r["digest"] = [r1.get("Q"), r2.get("Q")]
    r["sample"] = {"shape": w["shape"], "target": w["target"], "N": N, "k": w["k"], "cfg": w["cfg"],
                   "after": w["after"], "Q_N": r1.get("Q"), "Q_2N": r2.get("Q"),
                   "nodes": w["nodes"], "steps": r["stats"]["steps"]}
    return r


def run_one(seed, tier, replay=None, lenient=False):
    if replay is not None:
        return execute(replay["workload"], seed, strategy=replay.get("strategy", "random"),
                       forced=replay["schedule"], strict=not lenient, forced2=replay["schedule"])
    w = gen(seed, tier)
    spec = S.swarm_strategy_spec(rng_for(seed, "strategy"), starve_names=("save", "build", "main", "divide"))
    return execute(w, seed, strategy=spec)


def warm():
    for s in range(2):
        run_one(s, "quick")
