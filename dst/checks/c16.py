"""C16 - copying, rechunking, recompressing and per-chunk merging preserve the data.

Modes (one per simulated run, all on SimFS with sim thread / process-stub pools):
  rechunker   strax.rechunker(source, dest | replace, compressor, target size, rechunk,
              parallel in {False, 'thread', 'process' (stub)})
  copy        Context.copy_to_frontend(target_compressor, rechunk, rechunk_to_mb)
  onload      loading through a plugin with rechunk_on_load and a small chunk_source_size_mb
  perchunk    make(chunk_number=...) over a random grouping of the dependency's chunks, then
              merge_per_chunk_storage
Oracle: the result loads to exactly the original rows; destination metadata agrees with the new
files and records the new compressor / target size; the source is untouched unless replaced.
"""
import json

import numpy as np

import strax

from .. import gen as G
from .. import plugins as P
from .. import sched as S
from ..core import SimRun, Violation, rng_for, jhash, classify_abort
from ..pipeline import DATA_DIR, PipelineRun, common_verdict, prestore, sig_of_exception, base_result
from ..simfs import ROOT, Fault, SimFS
from . import c03

PROPERTY = "C16"
LEVEL = "exploration"
QUICK_RUNS = 14000
THOROUGH_RUNS = 200_000
QUICK_BUDGET_S = 100
BATCH = 40
SMOKE_RUNS = 8
DETERMINISM_RUNS = 40
COMPONENTS = {
    "real": ["strax.rechunker (file_rechunker.py)", "Context.copy_to_frontend", "Context.merge_per_chunk_storage "
             "and chunk_number lineage tagging", "StorageBackend.loader incl. rechunk on load", "Saver/FileSaver",
             "strax.io", "Rechunker", "Mailbox (threaded rechunker)"],
    "simulated": ["file system incl. TemporaryDirectory / move", "thread pool", "clock", "thread scheduling"],
    "stub": ["ProcessPoolExecutor (parallel='process'): tasks run on sim threads behind a pickle boundary"],
}
RULE = ("one evaluation = one seeded transformation of a stored data type followed by reloading; non-trivial = "
        "at least one non-empty chunk; distinct = different hash of (workload, schedule trace)")


def gen(seed, tier):
    r = rng_for(seed, "workload")
    mode = r.choice(["rechunker", "rechunker", "copy", "copy", "onload", "perchunk"])
    w = {"mode": mode, "fs_order": r.choice([0, 1, 4])}
    if mode == "rechunker":
        base = c03.gen(seed, tier)
        w.update({k: base[k] for k in ("dtype", "rows", "bounds", "compressor", "target_mb")})
        itemsize = np.dtype(c03.DTYPES[w["dtype"]]).itemsize
        w["new_compressor"] = r.choice([None, "blosc", "zstd", "lz4", "bz2"])
        w["new_target_mb"] = r.choice([None, itemsize / 1e6, 3 * itemsize / 1e6, 10 * itemsize / 1e6, 200])
        w["rechunk"] = r.random() < 0.7
        w["parallel"] = r.choice([False, False, "thread", "process"])
        w["max_workers"] = r.randint(1, 3)
        w["replace"] = r.random() < 0.4
        w["dest"] = None if (w["replace"] and r.random() < 0.5) else r.choice(["plain", "named"])
        # one I/O fault while the new copy is being written (or the old one read), a third of the runs
        w["fault"] = None
        if r.random() < 0.35:
            if r.random() < 0.8:
                w["fault"] = {"kind": r.choice(["eio", "enospc", "short_write"]),
                              "op": r.choice(["write", "write", "write", "open_w", "rename", "makedirs"]),
                              "nth": r.choice([0, 0, 1, 2, 3, 5])}
            else:
                w["fault"] = {"kind": "read_eio", "op": "read", "nth": r.choice([0, 1, 2, 3])}
        return w
    # context based modes: a small graph
    spec = G.gen_graph(r, n_derived=(1, 2), n_sources=(1, 1), n_rows=(1, 10), max_chunks=6,
                       kinds=("rowmap", "filter", "rowmap"))
    derived = [d for n in spec["nodes"] if n["kind"] != "source" for d in P.names_of(n)]
    target = r.choice(derived)
    for n in spec["nodes"]:
        n["opts"] = {"save_when": "ALWAYS", "rechunk_on_save": r.random() < 0.4,
                     "target_mb": r.choice([200, 3 * 24 / 1e6]), "compressor": r.choice(["blosc", "zstd", "lz4", "bz2"])}
    orc = P.oracle(spec)
    s, e = P.run_range(spec)
    w.update({"spec": spec, "target": target, "stored": {},
              "cfg": {"processor": r.choice(["threaded_mailbox", "single_thread"]),
                      "max_workers": r.choice([1, 1, 2]), "allow_lazy": r.random() < 0.5,
                      "allow_rechunk": True, "max_messages": 10_000}, "est_steps": 600})
    rows = [[int(a), int(b), 0] for a, b in zip(orc[target]["time"], orc[target]["endtime"])]
    if mode == "copy":
        w["layout"] = G.gen_bounds(r, rows, s, e, max_chunks=7)
        w["new_compressor"] = r.choice([None, "blosc", "zstd", "lz4", "bz2"])
        w["rechunk"] = r.random() < 0.6
        w["rechunk_to_mb"] = r.choice([24 / 1e6, 2 * 24 / 1e6, 5 * 24 / 1e6, 200])
        # 1..3 further frontends; the copy goes to one of them or (no index: the documented default) to all
        # that take the data and do not have it yet
        w["n_targets"] = r.choice([1, 2, 2, 3])
        w["target_id"] = r.choice([None, None, r.randint(1, w["n_targets"])])
        w["has_already"] = sorted(i for i in range(1, w["n_targets"] + 1)
                                  if w["n_targets"] > 1 and i != w["target_id"] and r.random() < 0.2)
        w["fault"] = None
        if r.random() < 0.25:
            w["fault"] = {"kind": r.choice(["eio", "enospc", "short_write"]),
                          "op": r.choice(["write", "write", "open_w", "rename", "makedirs"]),
                          "nth": r.choice([0, 0, 1, 2, 3]), "frontend": r.randint(1, w["n_targets"])}
    elif mode == "onload":
        w["layout"] = G.gen_bounds(r, rows, s, e, max_chunks=5)
        nb = P.node_by_type(spec)
        nb[target]["opts"]["rechunk_on_load"] = True
        nb[target]["opts"]["source_mb"] = r.choice([24 / 1e6, 2 * 24 / 1e6, 4 * 24 / 1e6])
        if w["cfg"]["processor"] == "single_thread":
            w["cfg"]["max_workers"] = 1
        # a consumer above the rechunk-on-load type, half of the time
        if r.random() < 0.5:
            spec["nodes"].append({"name": "top", "kind": "rowmap", "dep": target, "a": 2, "b": 1,
                                  "opts": {"save_when": "NEVER", "rechunk_on_save": False}})
            w["request"] = "top"
        else:
            w["request"] = target
    elif mode == "perchunk":
        src = spec["nodes"][0]
        n_chunks = len(src["bounds"]) - 1
        # random grouping of the source's chunks into consecutive per-chunk jobs
        groups, i = [], 0
        while i < n_chunks:
            k = r.randint(1, min(3, n_chunks - i))
            groups.append(list(range(i, i + k)))
            i += k
        w["groups"] = groups
        # staged merging: a contiguous block of the jobs is merged first (stored as per-chunk data of the union of
        # their chunks, NOT as the complete type), then that block and the remaining jobs are merged
        w["stage"] = None
        if len(groups) >= 2 and r.random() < 0.5:
            i0 = r.randrange(len(groups))
            i1 = r.randrange(i0, len(groups))
            if (i0, i1) != (0, len(groups) - 1):
                w["stage"] = [i0, i1]
        w["merge_rechunk"] = r.random() < 0.6
        w["new_compressor"] = r.choice([None, "zstd", "lz4"])
        for n in spec["nodes"]:
            n["opts"]["rechunk_on_save"] = False if n["kind"] == "source" else n["opts"]["rechunk_on_save"]
        src["opts"]["rechunk_on_save"] = False
        w["cfg"]["max_workers"] = 1
        # a plugin whose compute takes chunk_i: strax then drives its own chunk counter over the job's chunk numbers
        nb = P.node_by_type(spec)
        if nb[target]["kind"] == "rowmap" and r.random() < 0.5:
            nb[target]["opts"]["takes_chunk_i"] = True
    return w


def shrink(w):
    if w["mode"] == "rechunker":
        for c in c03.shrink(dict(w, save_workers=0, load_workers=0)):
            c = dict(c)
            c.pop("save_workers", None)
            c.pop("load_workers", None)
            yield c
        if w["parallel"]:
            yield dict(w, parallel=False)
        if w["new_compressor"]:
            yield dict(w, new_compressor=None)


def snapshot(fs, prefix):
    return fs.digest(prefix)


def load_dir(fs, dirname):
    be = strax.FileSytemBackend()
    out = []
    for c in be.loader(dirname):
        out.append((c.start, c.end, c.data.copy()))
    prefix = strax.dirname_to_prefix(dirname)
    with fs.open(f"{dirname}/{prefix}-metadata.json") as f:
        md = json.loads(f.read())
    return out, md


def offline(fs, fn):
    """Run fn() with the seams installed on `fs` (after the simulated run itself is over)."""
    R = SimRun(0, fs=fs)
    with R:
        out = R.main(fn)
    if out[0] == "exc":
        raise out[1]
    return out[1]


def judge_dir(fs, dirname, arr, src_bounds, rechunked, compressor, run_id="0"):
    def go():
        loaded, md = load_dir(fs, dirname)
        res = {"loaded": loaded, "md": md, "tree": fs.tree(dirname)}
        return c03.judge({"rechunk": rechunked, "compressor": compressor}, arr, src_bounds, res, fs, dirname)
    return offline(fs, go)


def execute(w, seed, strategy="random", forced=None, strict=False):
    if w["mode"] == "rechunker":
        return execute_rechunker(w, seed, strategy, forced, strict)
    return execute_ctx(w, seed, strategy, forced, strict)


def _finish(R, w, vio, inconclusive, strategy, nontrivial, probes, sample):
    st = R.stats()
    return {
        "verdict": "violation" if vio else ("inconclusive" if inconclusive else "ok"),
        "vio": vio.to_json() if vio else None,
        "trace_hash": R.trace_hash(jhash(w)),
        "nontrivial": nontrivial,
        "stats": st, "states": set(), "probes": probes, "strategy": strategy.split(":")[0],
        "replay": {"workload": w, "schedule": list(R.sim.trace), "strategy": strategy},
        "sample": sample,
    }


def sched_verdict(sim, out):
    ab = classify_abort(sim)
    if ab == "inconclusive":
        return None, True
    if isinstance(ab, Violation):
        return ab, False
    if sim.lost_wakeups:
        return Violation("LOST_WAKEUP", "a thread keeps waiting although its condition holds",
                         sim.lost_wakeups[0]), False
    if sim.hangs:
        return Violation("HANG", "progress only by timeout", sim.hangs[0]), False
    if out[0] == "exc" and isinstance(out[1], S.HarnessError):
        raise out[1]
    return None, False


def _visible_after_failure(fs, final_dir, arr, bounds, w, comp):
    def complete():
        prefix = strax.dirname_to_prefix(final_dir)
        try:
            with fs.open(f"{final_dir}/{prefix}-metadata.json") as f:
                md = json.loads(f.read())
        except Exception:
            return False
        return "exception" not in md and bool(md.get("writing_ended"))
    if not offline(fs, complete):
        return None
    try:
        bad = judge_dir(fs, final_dir, arr, bounds, w["rechunk"], comp)
    except Exception as e:
        bad = Violation("UNLOADABLE", f"cannot be loaded: {sig_of_exception(e)}", repr(e)[:400])
    if bad is None:
        return None
    return Violation("VISIBLE_AFTER_FAILED_REWRITE", "rechunker failed, yet the destination holds data that looks "
                     f"complete and is wrong: {bad.cls}", f"{bad.signature}; {str(bad.detail)[:400]}")


def execute_rechunker(w, seed, strategy, forced, strict):
    fs = SimFS(order_salt=w["fs_order"])
    R = SimRun(seed, strategy=strategy, forced=forced, strict=strict, fs=fs, est_steps=300)
    arr = c03.make_array(w["dtype"], w["rows"])
    bounds = w["bounds"]
    parts = c03.rows_in_chunks(arr, bounds)
    src = f"{ROOT}/src/0-thing-abcdefghij"
    res = {}

    def body():
        fs.makedirs(f"{ROOT}/src", exist_ok=True)
        fs.makedirs(f"{ROOT}/dst", exist_ok=True)
        be = strax.FileSytemBackend()
        md = dict(run_id="0", data_type="thing", data_kind="things", dtype=arr.dtype, lineage_hash="abcdefghij",
                  compressor=w["compressor"], lineage={"thing": ("P", "0", {})}, chunk_target_size_mb=w["target_mb"])
        saver = be.saver(src, md, saver_timeout=60)
        saver.save_from((strax.Chunk(start=bounds[i], end=bounds[i + 1], data=d, data_type="thing",
                                     data_kind="things", dtype=arr.dtype, run_id="0",
                                     target_size_mb=w["target_mb"]) for i, d in enumerate(parts)), rechunk=False)
        res["src_digest"] = snapshot(fs, src)
        dest = None
        if w["dest"] == "plain":
            dest = f"{ROOT}/dst"
        elif w["dest"] == "named":
            dest = f"{ROOT}/dst/0-thing-abcdefghij"
        f = w.get("fault")
        if f:
            # the new copy is written to <dest>_temp (a temporary directory when replacing without a
            # destination); the fault addresses the nth operation of one kind there, or a read of the source
            new_dir = f"{ROOT}/tmp/tmp0001/0-thing-abcdefghij" if dest is None else f"{ROOT}/dst/0-thing-abcdefghij"
            fs.faults.append(Fault(f["kind"], path_prefix=src if f["op"] == "read" else new_dir + "_temp",
                                   op_kind=f["op"], nth=f["nth"]))
        res["summary"] = strax.rechunker(src, dest_directory=dest, replace=w["replace"],
                                         compressor=w["new_compressor"], target_size_mb=w["new_target_mb"],
                                         rechunk=w["rechunk"], progress_bar=False, parallel=w["parallel"],
                                         max_workers=w["max_workers"], _timeout=120)
        res["alive"] = [t.name for t in R.sim.live_threads()]
        return True

    with R:
        out = R.main(body)
    vio, inconclusive = sched_verdict(R.sim, out)
    final_dir = src if w["replace"] else f"{ROOT}/dst/0-thing-abcdefghij"
    comp = w["new_compressor"] or w["compressor"]
    fired = [x for x in fs.fired]
    fs.healed = True          # the judging below reads the same simulated disk
    if vio is None and not inconclusive and fired and out[0] == "exc":
        # a failed rewrite: whatever it raises, the data it was rewriting is still there, unchanged (the
        # fault hit while the new copy was written; the source is only replaced afterwards)
        if "src_digest" not in res:
            vio = Violation("EXC", f"harness phase: {sig_of_exception(out[1])}", repr(out[1])[:600])
        elif snapshot(fs, src) != res["src_digest"]:
            vio = Violation("SOURCE_LOST", f"rechunker failed ({w['fault']['op']} error) and the source data is "
                                           f"changed or gone (replace={w['replace']})", fs.tree(src)[:8])
        elif final_dir != src and fs.isdir(final_dir):
            # ... and a half-written copy is not left under the final name looking complete
            vio = _visible_after_failure(fs, final_dir, arr, bounds, w, comp)
    elif vio is None and not inconclusive:
        if out[0] == "exc":
            vio = Violation("EXC", f"rechunker raised {sig_of_exception(out[1])}", repr(out[1])[:800])
        else:
            if res["alive"]:
                vio = Violation("THREADS_ALIVE", "threads alive after strax.rechunker returned", res["alive"])
            if vio is None and not fs.isdir(final_dir):
                vio = Violation("MISSING", "rewritten data is not where it should be", fs.tree(ROOT)[:12])
            if vio is None:
                try:
                    vio = judge_dir(fs, final_dir, arr, bounds, w["rechunk"], comp)
                except Exception as e:
                    vio = Violation("UNLOADABLE", f"rewritten data cannot be loaded: {sig_of_exception(e)}", repr(e)[:600])
            if vio is None and not w["replace"] and snapshot(fs, src) != res["src_digest"]:
                vio = Violation("SOURCE_CHANGED", "source data changed although replace was not requested", "")
            if vio is None and w["new_target_mb"] is not None:
                _, md = offline(fs, lambda: load_dir(fs, final_dir))
                if md.get("chunk_target_size_mb") != w["new_target_mb"]:
                    vio = Violation("BAD_METADATA", "new target size not recorded in the metadata",
                                    (md.get("chunk_target_size_mb"), w["new_target_mb"]))
            if vio is None and [p for p in fs.tree(ROOT + "/tmp") if p != ROOT + "/tmp/"]:
                vio = Violation("LEFTOVERS", "temporary directory not cleaned up", fs.tree(ROOT + "/tmp")[:5])
            if vio is not None and fired:
                vio = Violation("SWALLOWED", f"rechunker (parallel={w['parallel']}, replace={w['replace']}) returned "
                                             f"its normal summary although a {w['fault']['op']} failed; result: "
                                             f"{vio.cls}", f"{vio.signature}; {str(vio.detail)[:400]}")
    r = _finish(R, w, vio, inconclusive, strategy, len(arr) > 0,
                   {"mode_rechunker": 1, f"parallel_{w['parallel']}": 1, "replace_runs": int(w["replace"]),
                    "fault_fired": int(bool(fired)),
                    "fault_then_raised": int(bool(fired) and out[0] == "exc"),
                    f"to_{comp}": 1, "rechunk_runs": int(w["rechunk"])},
                   {"mode": "rechunker", "dtype": w["dtype"], "n_rows": len(arr), "bounds": bounds,
                    "compressor": w["compressor"], "new_compressor": w["new_compressor"],
                    "new_target_mb": w["new_target_mb"], "parallel": w["parallel"], "replace": w["replace"],
                    "dest": w["dest"], "rechunk": w["rechunk"], "fault": w.get("fault"),
                    "outcome": out[0] if out[0] != "exc" else sig_of_exception(out[1])})
    if w.get("fault"):
        r["faults"] = {f"rechunker_{w['fault']['kind']}_{w['fault']['op']}": int(bool(fired))}
    return r


def judge_copy(w, fs, res, roots, exp, spec, target):
    have = list(w.get("has_already", []))
    tid = w.get("target_id", 1)
    n = len(roots) - 1
    expected = [i for i in range(1, n + 1) if i not in have] if tid is None else [tid]
    fired = list(fs.fired)
    where = f"target_frontend_id={tid}, {n} further frontend(s)"
    for i in [0] + have:
        if snapshot(fs, roots[i]) != res["digest"][i]:
            return Violation("SOURCE_CHANGED", "copy_to_frontend changed the source frontend" if i == 0 else
                             "copy_to_frontend changed a frontend that already had the data", where)
    if res["copy"] == "raised":
        e = res["copy_exc"]
        if isinstance(e, S.HarnessError):
            raise e
        if fired or not expected:
            # a failed / refused copy: whatever a destination frontend now reports as stored (frontends served
            # before the failing one, or a half-written copy wrongly left visible) loads to the original rows
            for i in range(1, n + 1):
                ent = res["per"][i]
                if i in have or not ent["stored"]:
                    continue
                if "exc" in ent:
                    return Violation("VISIBLE_AFTER_FAILED_COPY", "copy_to_frontend failed, yet a destination reports "
                                     f"the data as stored and it cannot be loaded: {sig_of_exception(ent['exc'])}",
                                     f"frontend {i}; {where}; {ent['exc']!r}"[:600])
                if not P.rows_equal(ent["rows"], exp):
                    return Violation("VISIBLE_AFTER_FAILED_COPY", "copy_to_frontend failed, yet a destination reports "
                                     "the data as stored and it loads to different rows",
                                     f"frontend {i}; {where}; " + P.describe_diff(ent["rows"], exp))
            return None
        return Violation("EXC", f"copy: {sig_of_exception(e)}", repr(e)[:800])
    vio = None
    if not expected:
        vio = Violation("NO_ERROR", "copy_to_frontend with nowhere to copy to returned normally", where)
    comp = w["new_compressor"] or P.node_by_type(spec)[target]["opts"]["compressor"]
    for i in expected:
        if vio is not None:
            break
        ent = res["per"][i]
        if not ent["stored"]:
            vio = Violation("MISSING", "copied data is not reported as stored in a destination frontend",
                            f"frontend {i}; {where}")
        elif "exc" in ent:
            vio = Violation("UNLOADABLE", f"copied data cannot be loaded: {sig_of_exception(ent['exc'])}",
                            f"frontend {i}; {where}; {ent['exc']!r}"[:600])
        elif not P.rows_equal(ent["rows"], exp):
            vio = Violation("WRONG_ROWS", "copied data loads to different rows",
                            f"frontend {i}; {where}; " + P.describe_diff(ent["rows"], exp))
        else:
            try:
                vio = judge_dir(fs, ent["dir"], exp, w["layout"], w["rechunk"], comp)
            except Exception as e:
                vio = Violation("UNLOADABLE", f"copied data cannot be loaded: {sig_of_exception(e)}", repr(e)[:600])
    for i in range(1, n + 1):
        if vio is None and i not in expected and i not in have and (res["per"][i]["stored"] or fs.isdir(res["per"][i]["dir"])):
            vio = Violation("STRAY_COPY", "data written to a frontend that was not the requested destination",
                            f"frontend {i}; {where}")
    if vio is not None and fired:
        vio = Violation("SWALLOWED", f"copy_to_frontend returned normally although a {w['fault']['op']} failed; "
                                     f"result: {vio.cls}", f"{vio.signature}; {str(vio.detail)[:400]}")
    return vio


def execute_ctx(w, seed, strategy, forced, strict):
    mode = w["mode"]
    fs = SimFS(order_salt=w["fs_order"])
    pr = PipelineRun(w, seed, strategy=strategy, forced=forced, strict=strict, fs=fs)
    spec, target = w["spec"], w["target"]
    res = {}
    roots = [DATA_DIR] + [f"{ROOT}/d{i}" for i in range(1, w.get("n_targets", 1) + 1)]

    def body():
        pr.build()
        if mode == "copy":
            ctx = pr.context(storage=[strax.DataDirectory(p) for p in roots])
            prestore(ctx, pr.run_id, target, pr.oracle[target], w["layout"], frontend=0)
            for i in w.get("has_already", []):
                prestore(ctx, pr.run_id, target, pr.oracle[target], w["layout"], frontend=i)
            res["digest"] = {i: snapshot(fs, roots[i]) for i in [0] + list(w.get("has_already", []))}
            f = w.get("fault")
            if f:
                fs.faults.append(Fault(f["kind"], path_prefix=roots[f["frontend"]] + "/", op_kind=f["op"],
                                       nth=f["nth"]))
            try:
                ctx.copy_to_frontend(pr.run_id, target, target_frontend_id=w.get("target_id", 1),
                                     target_compressor=w["new_compressor"], rechunk=w["rechunk"],
                                     rechunk_to_mb=w["rechunk_to_mb"])
                res["copy"] = "returned"
            except S.SimAbort:
                raise
            except Exception as e:
                res["copy"] = "raised"
                res["copy_exc"] = e
            fs.healed = True
            res["per"] = {}
            for i in range(1, len(roots)):
                only = pr.context(storage=[strax.DataDirectory(roots[i])], extra={"forbid_creation_of": "*"})
                entry = {"stored": only.is_stored(pr.run_id, target),
                         "dir": roots[i] + "/" + str(only.key_for(pr.run_id, target))}
                if entry["stored"]:
                    try:
                        entry["rows"] = only.get_array(pr.run_id, target, processor="single_thread",
                                                       progress_bar=False)
                    except S.SimAbort:
                        raise
                    except Exception as e:
                        entry["exc"] = e
                res["per"][i] = entry
        elif mode == "onload":
            ctx = pr.context()
            prestore(ctx, pr.run_id, target, pr.oracle[target], w["layout"])
            pr.install_invariants()
            res["chunks"] = pr.get_chunks(ctx, w["request"])
            res["alive"] = [t.name for t in pr.R.sim.live_threads()]
        elif mode == "perchunk":
            ctx = pr.context()
            src = spec["nodes"][0]["name"]
            ctx.make(pr.run_id, src, processor="single_thread")
            n_chunks = len(ctx.get_metadata(pr.run_id, src)["chunks"])
            res["n_src_chunks"] = n_chunks
            groups = [g for g in w["groups"] if g[-1] < n_chunks]
            for g in groups:
                ctx.make(pr.run_id, target, chunk_number={src: g}, processor=w["cfg"]["processor"],
                         max_workers=w["cfg"]["max_workers"])
            res["stored_before_merge"] = ctx.is_stored(pr.run_id, target)
            st = w.get("stage")
            if st and st[1] < len(groups) and (st[0], st[1]) != (0, len(groups) - 1):
                block = groups[st[0]:st[1] + 1]
                if len(block) > 1:
                    ctx.merge_per_chunk_storage(pr.run_id, target, src, chunk_number_group=block,
                                                rechunk=w["merge_rechunk"], target_compressor=w["new_compressor"])
                union = [c for g in block for c in g]
                res["stored_after_stage"] = pr.context(extra={"forbid_creation_of": "*"}).is_stored(pr.run_id, target)
                res["stage_union"] = union
                groups = groups[:st[0]] + [union] + groups[st[1] + 1:]
            ctx.merge_per_chunk_storage(pr.run_id, target, src, chunk_number_group=groups,
                                        rechunk=w["merge_rechunk"], target_compressor=w["new_compressor"])
            fresh = pr.context(extra={"forbid_creation_of": "*"})
            res["stored_after_merge"] = fresh.is_stored(pr.run_id, target)
            res["rows"] = fresh.get_array(pr.run_id, target, processor="single_thread", progress_bar=False)
            res["dest_dir"] = DATA_DIR + "/" + str(fresh.key_for(pr.run_id, target))
        return True

    with pr.R:
        out = pr.R.main(body)
    vio, inconclusive = common_verdict(pr, out)
    exp = pr.oracle[target] if pr.oracle is not None else None
    if vio is None and not inconclusive:
        if out[0] == "exc":
            vio = Violation("EXC", f"{mode}: {sig_of_exception(out[1])}", repr(out[1])[:800])
        elif mode == "copy":
            vio = judge_copy(w, fs, res, roots, exp, spec, target)
        elif mode == "onload":
            from ..pipeline import check_tiling
            want = pr.oracle[w["request"]]
            chunks = res["chunks"]
            got = np.concatenate([c[2] for c in chunks]) if chunks else want[:0]
            if not P.rows_equal(got, want):
                vio = Violation("WRONG_ROWS", "rechunk on load changed the rows", P.describe_diff(got, want))
            else:
                s, e = P.run_range(spec)
                vio = check_tiling([(a, b, d) for a, b, d, _ in chunks], s, e)
            if vio is None and res["alive"]:
                vio = Violation("THREADS_ALIVE", "threads alive after loading", res["alive"])
        elif mode == "perchunk":
            if res.get("stored_after_stage"):
                vio = Violation("PARTIAL_AS_COMPLETE", "a merge of only some per-chunk jobs is reported as the "
                                                       "complete data type", f"chunks {res['stage_union']} of "
                                                                             f"{res['n_src_chunks']}")
            elif not res["stored_after_merge"]:
                vio = Violation("MISSING", "merged per-chunk data is not reported as stored", "")
            elif not P.rows_equal(res["rows"], exp):
                vio = Violation("WRONG_ROWS", "per-chunk jobs + merge differ from the directly made data",
                                P.describe_diff(res["rows"], exp))
    probes = {f"mode_{mode}": 1}
    if mode == "onload":
        probes["onload_split_happened"] = int(len(res.get("chunks", [])) > len(w["layout"]) - 1)
        probes["pool_runs"] = int(w["cfg"]["max_workers"] > 1)
    if mode == "perchunk":
        probes["perchunk_groups"] = len(w["groups"])
        probes["perchunk_staged_merge"] = int("stage_union" in res)
    if mode == "copy":
        probes["copy_to_all_frontends"] = int(w.get("target_id", 1) is None and w.get("n_targets", 1) > 1)
        probes["copy_fault_fired"] = int(bool(fs.fired))
        probes["copy_raised"] = int(res.get("copy") == "raised")
    r = base_result(pr, w, vio, inconclusive, strategy=strategy, extra_probes=probes)
    if mode == "copy" and w.get("fault"):
        r["faults"] = {f"copy_{w['fault']['kind']}_{w['fault']['op']}": int(bool(fs.fired))}
    r["nontrivial"] = exp is not None and len(exp) > 0
    r["sample"] = {"mode": mode, "target": target, "cfg": w["cfg"],
                   "nodes": [{k: v for k, v in n.items() if k != "rows"} for n in spec["nodes"]],
                   **{k: w[k] for k in ("layout", "new_compressor", "rechunk", "rechunk_to_mb", "groups",
                                        "merge_rechunk", "request") if k in w}}
    return r


def run_one(seed, tier, replay=None, lenient=False):
    if replay is not None:
        return execute(replay["workload"], seed, strategy=replay.get("strategy", "random"),
                       forced=replay["schedule"], strict=not lenient)
    w = gen(seed, tier)
    spec = S.swarm_strategy_spec(rng_for(seed, "strategy"), starve_names=("pool", "main", "save", "source"))
    return execute(w, seed, strategy=spec)


def warm():
    for s in range(6):
        run_one(s, "quick")
