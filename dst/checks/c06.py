"""C06 - failures reach the caller and never hang the pipeline.

One failure per run - a plugin / pool worker raising at a chosen row, an I/O error in a
saver or loader (SimFS fault), a stalled online source, or a consumer that abandons the
iterator - injected into a generated pipeline running under a seeded schedule.  Because
the schedule around the failing step is seeded, the resulting kill races with concurrent
send / close / capacity waits / fetch-gate waits of every other thread.
"""
import numpy as np

from .. import gen as G
from .. import plugins as P
from .. import sched as S
from ..core import Violation, rng_for
from ..pipeline import DATA_DIR, PipelineRun, base_result, common_verdict, prestore, root_cause, sig_of_exception
from ..simfs import Fault
from . import c01

PROPERTY = "C06"
LEVEL = "exploration"
QUICK_RUNS = 4000
THOROUGH_RUNS = 120_000
QUICK_BUDGET_S = 110
BATCH = 25
SMOKE_RUNS = 6
DETERMINISM_RUNS = 40
COMPONENTS = dict(c01.COMPONENTS, simulated=c01.COMPONENTS["simulated"] + [
    "injected failures: plugin/pool-worker exception, saver EIO, loader EIO, stalled source, consumer close"])

FAULT_KINDS = ("plugin_raise", "plugin_raise", "saver_eio", "saver_eio", "loader_eio", "consumer_close",
               "consumer_close", "stalled_source")


def gen(seed, tier):
    r = rng_for(seed, "workload")
    w = c01.gen(seed, tier, kinds=("rowmap", "filter", "merge2", "multi", "loop", "overlap", "downchunk", "cut"))
    spec, target = w["spec"], w["target"]
    need = sorted(G.needed_for(spec, target))
    nb = P.node_by_type(spec)
    orc = P.oracle(spec)
    kind = r.choice(FAULT_KINDS)
    fault = None
    computed = [d for d in need if d not in w["stored"]]
    # a type that is stored is loaded, and so is nothing above it unless needed through another path;
    # keep it simple: the planner of the real code decides, we only pick candidates that certainly run
    def certainly_runs(d):
        # d is computed iff it is needed via a path that does not cross a stored type
        todo, seen = [target], set()
        while todo:
            x = todo.pop()
            if x in seen or x in w["stored"]:
                continue
            seen.add(x)
            if x == d:
                return True
            todo.extend(P.deps_of(nb[x]))
        return False
    running = [d for d in need if certainly_runs(d)]
    if kind == "plugin_raise" and running:
        d = r.choice(running)
        if target in running and r.random() < 0.3:
            d = target      # the failing stage is the one whose mailbox the caller reads (it is killed differently)
        n = nb[d]
        if n["kind"] == "source":
            fault = {"type": "plugin_raise", "node": d, "chunk": r.randrange(len(n["bounds"]) - 1), "kind": "raise"}
        else:
            times = sorted({int(t) for dep in P.deps_of(n) for t in orc[dep]["time"]})
            if times:
                fault = {"type": "plugin_raise", "node": P.names_of(n)[0] if n["kind"] != "multi" else d,
                         "row_time": r.choice(times), "kind": "raise"}
    elif kind == "saver_eio":
        cand = []
        for d in running:
            sw = nb[d].get("opts", {}).get("save_when", "ALWAYS")
            sw = sw[d] if isinstance(sw, dict) else sw
            if sw == "ALWAYS" or (sw == "TARGET" and d == target):
                cand.append(d)
        # side outputs of running multi-output plugins are saved as well
        for d in list(running):
            n = nb[d]
            if "names" in n:
                for s in n["names"]:
                    sw = n["opts"]["save_when"][s]
                    if s not in cand and s not in w["stored"] and sw == "ALWAYS":
                        cand.append(s)
        if cand:
            d = r.choice(sorted(set(cand)))
            fault = {"type": "saver_eio", "dtype": d, "op": r.choice(["write", "write", "open_w", "rename", "makedirs"]),
                     "nth": r.choice([0, 0, 1, 2, 3]), "errno": r.choice(["eio", "enospc"])}
    elif kind == "loader_eio" and w["stored"]:
        cand = [d for d in w["stored"] if len(orc[d])]
        if cand:
            d = r.choice(sorted(cand))
            fault = {"type": "loader_eio", "dtype": d, "nth": r.choice([0, 0, 1, 2]),
                     "how": r.choice(["read_eio", "read_corrupt"])}
    elif kind == "consumer_close":
        fault = {"type": "consumer_close", "after": r.choice([0, 1, 1, 2, 3])}
    elif kind == "stalled_source":
        srcs = [d for d in running if nb[d]["kind"] == "source"]
        if srcs:
            d = r.choice(srcs)
            fault = {"type": "stalled_source", "node": d, "chunk": r.randrange(len(nb[d]["bounds"]) - 1)}
            w["cfg"]["timeout"] = 300
            # (not in multiprocessing mode: ParallelSourcePlugin.input_timeout is 300 s, not below the mailbox
            # timeout, so which timeout fires first is a configuration matter, not a property of the code)
            w["cfg"].pop("allow_multiprocess", None)
    if fault is None:
        fault = {"type": "consumer_close", "after": r.choice([0, 1, 2])}
    w["fault"] = fault
    if fault["type"] == "plugin_raise" and w["cfg"]["max_workers"] > 1:
        fault["pool"] = bool(nb[fault["node"]].get("opts", {}).get("parallel"))
    return w


def shrink(w):
    for c in c01.shrink(w):
        f = w["fault"]
        nodes = {d for n in c["spec"]["nodes"] for d in P.names_of(n)}
        if f.get("node") and f["node"] not in nodes:
            continue
        if f.get("dtype") and f["dtype"] not in nodes:
            continue
        yield c


class ConsumerGone(Exception):
    pass


def execute(w, seed, strategy="random", forced=None, strict=False):
    f = w["fault"]
    plugin_fault = None
    if f["type"] == "plugin_raise":
        plugin_fault = {k: v for k, v in f.items() if k in ("node", "chunk", "row_time", "kind")}
    pr = PipelineRun(w, seed, strategy=strategy, forced=forced, strict=strict, fault=plugin_fault)
    spec, target = w["spec"], w["target"]
    res = {"n_yielded": 0}

    def body():
        pr.build()
        if f["type"] == "stalled_source":
            cls = pr.classes[f["node"]]
            stall_at = f["chunk"]
            cls.is_ready = lambda self, chunk_i: chunk_i < stall_at
            cls.source_finished = lambda self: False
            cls.input_timeout = 80
        ctx = pr.context()
        for d, bounds in sorted(w["stored"].items()):
            prestore(ctx, pr.run_id, d, pr.oracle[d], bounds)
        if f["type"] == "saver_eio":
            pr.fs.faults.append(Fault(f["errno"], path_prefix=f"{DATA_DIR}/{pr.run_id}-{f['dtype']}-",
                                      op_kind=f["op"], nth=f["nth"]))
        elif f["type"] == "loader_eio":
            pr.fs.faults.append(Fault(f["how"], path_prefix=f"{DATA_DIR}/{pr.run_id}-{f['dtype']}-",
                                      op_kind="read", nth=f["nth"] + 1))   # read 0 is the metadata
        pr.install_invariants()
        cfg = w["cfg"]
        it = ctx.get_iter(pr.run_id, target, processor=cfg["processor"], max_workers=cfg["max_workers"],
                          progress_bar=False)
        if f["type"] == "consumer_close":
            try:
                for c in it:
                    if res["n_yielded"] >= f["after"]:
                        break
                    res["n_yielded"] += 1
                res["close_exc"] = None
                try:
                    it.close()
                except Exception as e:       # what close() surfaces is not judged
                    res["close_exc"] = repr(e)[:200]
            finally:
                res["alive_after_close"] = [t.name for t in pr.R.sim.live_threads()]
            return "closed"
        rows = []
        for c in it:
            res["n_yielded"] += 1
            rows.append(c.data.copy())
        res["rows"] = np.concatenate(rows) if rows else None
        return "completed"

    with pr.R:
        out = pr.R.main(body)
        alive_at_return = list(pr.R.alive_at_return)
    vio, inconclusive = common_verdict(pr, out)
    fired = [x[0] for x in pr.fs.fired]
    ft = f["type"]
    fault_happened = True
    if vio is None and not inconclusive:
        if ft == "consumer_close":
            if out[0] == "exc":
                vio = Violation("EXC", f"consumer_close: {sig_of_exception(out[1])}", repr(out[1])[:800])
            elif res.get("alive_after_close"):
                vio = Violation("THREADS_ALIVE", "pipeline threads alive after the consumer closed the iterator",
                                res["alive_after_close"])
        else:
            if ft in ("saver_eio", "loader_eio") and not fired:
                fault_happened = False      # the planner did not create that saver / read: a fault-free run
            if ft == "plugin_raise":
                fault_happened = any(rec[0] == "__fault__" for rec in pr.log)
            if ft == "stalled_source":
                fault_happened = True
            if not fault_happened:
                # must then simply succeed with the right rows
                if out[0] == "exc":
                    vio = Violation("EXC", f"fault-free: {sig_of_exception(out[1])}", repr(out[1])[:800])
                elif not P.rows_equal(res["rows"], pr.oracle[target]):
                    vio = Violation("WRONG_ROWS", "fault did not fire and rows differ", "")
            elif out[0] == "ok":
                if ft == "loader_eio" and f["how"] == "read_corrupt":
                    # a flipped stored byte is not an exception: unless something raises because of it (most
                    # compressed frames fail to decode, metadata fails to parse) the property's antecedent does
                    # not hold, and strax keeps no checksums that would promise detection
                    pass
                else:
                    vio = Violation("SWALLOWED", f"{ft}: the call returned normally although the failure happened",
                                    f"fired={fired} yielded={res['n_yielded']}")
            else:
                e = out[1]
                rc = root_cause(e)
                ok = False
                text = repr(e) + repr(rc)
                if ft == "plugin_raise":
                    ok = isinstance(e, P.InjectedFault) or isinstance(rc, P.InjectedFault)
                elif ft == "saver_eio":
                    ok = (isinstance(e, OSError) or isinstance(rc, OSError)) and "[dst-fault]" in text
                elif ft == "loader_eio":
                    # a corrupted read surfaces as whatever the damaged bytes lead to (decoder error, DataCorrupted,
                    # a chunk file name that no longer exists ...): any exception is the original one
                    ok = "[dst-fault]" in text or f["how"] == "read_corrupt"
                elif ft == "stalled_source":
                    ok = type(e).__name__ == "InputTimeoutExceeded"
                if not ok:
                    vio = Violation("EXC_MASKED", f"{ft} [{w['cfg']['processor']}]: caller got "
                                                  f"{sig_of_exception(e)}", repr(e)[:800])
            if vio is None and alive_at_return:
                vio = Violation("THREADS_ALIVE", f"{ft}: pipeline threads alive after the call returned",
                                alive_at_return)
    r = base_result(pr, w, vio, inconclusive, strategy=strategy,
                    extra_probes={f"fault_{ft}": 1, "fault_happened": int(fault_happened),
                                  "pool_runs": int(w["cfg"]["max_workers"] > 1),
                                  "yielded_before_failure": res["n_yielded"]})
    r["faults"] = {ft: int(fault_happened)}
    r["sample"] = {"target": target, "cfg": w["cfg"], "fault": f, "stored": sorted(w["stored"]),
                   "nodes": [{k: v for k, v in n.items() if k != "rows"} for n in spec["nodes"]],
                   "outcome": out[0] if out[0] != "exc" else sig_of_exception(out[1]),
                   "steps": r["stats"]["steps"]}
    return r


def run_one(seed, tier, replay=None, lenient=False):
    if replay is not None:
        return execute(replay["workload"], seed, strategy=replay.get("strategy", "random"),
                       forced=replay["schedule"], strict=not lenient)
    w = gen(seed, tier)
    spec = S.swarm_strategy_spec(rng_for(seed, "strategy"))
    return execute(w, seed, strategy=spec)


def warm():
    for s in range(3):
        run_one(s, "quick")
