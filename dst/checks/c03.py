"""C03 - saving then loading returns the same rows, ranges and consistent metadata.

Real code: Saver.save_from / save / close, FileSaver, strax.io save_file / load_file with all
four compressors, Rechunker, StorageBackend.loader.  Simulated: the file system (SimFS), the
thread pool used for saving and loading (worker completion order is a scheduler decision),
the clock.  No faults here: C04 is the fault-injecting configuration of the same machinery.
"""
import json

import numpy as np

import strax

from .. import gen as G
from .. import sched as S
from ..core import SimRun, Violation, rng_for, jhash, classify_abort
from ..pipeline import sig_of_exception
from ..shims import SimExecutor
from ..simfs import ROOT, SimFS

PROPERTY = "C03"
LEVEL = "exploration"
QUICK_RUNS = 30000
THOROUGH_RUNS = 400_000
QUICK_BUDGET_S = 100
BATCH = 100
SMOKE_RUNS = 8
DETERMINISM_RUNS = 60
COMPONENTS = {
    "real": ["strax.Saver.save_from/save/close", "strax.FileSaver", "strax.io.save_file/load_file "
             "(blosc, zstd, lz4, bz2)", "strax.Rechunker", "strax.StorageBackend.loader", "strax.Chunk"],
    "simulated": ["file system (SimFS)", "thread pool for saving and loading, completion orders", "clock"],
    "stub": [],
}
RULE = ("one evaluation = one seeded save-then-load round trip; non-trivial = at least one non-empty chunk; "
        "distinct = different hash of (workload, schedule trace)")

DTYPES = {
    "te": [("time", "<i8"), ("endtime", "<i8"), ("v", "<i8")],
    "tdl": [("time", "<i8"), ("length", "<i4"), ("dt", "<i2"), ("v", "<i4")],
    "arr": [("time", "<i8"), ("endtime", "<i8"), ("a", "<f4", (3,)), ("b", "<u1")],
    "titled": [(("Start time", "time"), "<i8"), (("End time", "endtime"), "<i8"), (("Some value", "v"), "<f8")],
}


def make_array(kind, rows):
    dt = np.dtype(DTYPES[kind])
    a = np.zeros(len(rows), dtype=dt)
    if not len(rows):
        return a
    r = np.array(rows, dtype=np.int64).reshape(-1, 3)
    a["time"] = r[:, 0]
    if kind == "tdl":
        a["dt"] = 1
        a["length"] = r[:, 1] - r[:, 0]
        a["v"] = r[:, 2]
    elif kind == "arr":
        a["endtime"] = r[:, 1]
        a["a"] = (r[:, 2:3] * np.array([1.0, 0.5, -2.0])).astype(np.float32)
        a["b"] = r[:, 2] % 256
    else:
        a["endtime"] = r[:, 1]
        a["v"] = r[:, 2]
    return a


def gen(seed, tier):
    r = rng_for(seed, "workload")
    big = tier == "thorough"
    kind = r.choice(list(DTYPES))
    rows = G.gen_rows(r, r.randint(0, 30 if big else 14), disjoint=r.random() < 0.5, long_rows=r.random() < 0.1,
                      vmax=1000)
    start, end = G.run_span([rows], r)
    bounds = G.gen_bounds(r, rows, start, end, max_chunks=10, zero_dur_p=0.2)
    itemsize = np.dtype(DTYPES[kind]).itemsize
    rechunk = r.random() < 0.6
    target_rows = r.choice([1, 1, 2, 3, 5, 10, 10 ** 7])
    w = {"dtype": kind, "rows": rows, "bounds": bounds,
         "compressor": r.choice(["blosc", "zstd", "lz4", "bz2"]),
         "rechunk": rechunk, "target_mb": target_rows * itemsize / 1e6,
         "save_workers": r.choice([0, 0, 1, 2, 3]), "load_workers": r.choice([0, 0, 2]),
         "superrun_like": False, "fs_order": r.choice([0, 1, 5])}
    return w


def shrink(w):
    if len(w["bounds"]) > 2:
        yield dict(w, bounds=[w["bounds"][0], w["bounds"][-1]])
    n = len(w["rows"])
    for k in sorted({0, n // 2, n - 1}):
        if 0 <= k < n:
            rows = w["rows"][:k]
            bounds = [b for b in w["bounds"] if all(not (x[0] < b < x[1]) for x in rows)]
            yield dict(w, rows=rows, bounds=bounds)
    if w["save_workers"]:
        yield dict(w, save_workers=0)
    if w["load_workers"]:
        yield dict(w, load_workers=0)
    if w["compressor"] != "blosc":
        yield dict(w, compressor="blosc")


def rows_in_chunks(arr, bounds):
    et = strax.endtime(arr) if len(arr) else np.zeros(0, dtype=np.int64)
    out = []
    used = np.zeros(len(arr), dtype=bool)
    for a, b in zip(bounds[:-1], bounds[1:]):
        if a == b:
            out.append(arr[:0])
            continue
        m = (~used) & (arr["time"] >= a) & (et <= b)
        used |= m
        out.append(arr[m])
    assert used.all()
    return out


def execute(w, seed, strategy="random", forced=None, strict=False):
    fs = SimFS(order_salt=w.get("fs_order", 0))
    R = SimRun(seed, strategy=strategy, forced=forced, strict=strict, fs=fs, est_steps=200)
    arr = make_array(w["dtype"], w["rows"])
    bounds = w["bounds"]
    parts = rows_in_chunks(arr, bounds)
    dtype = arr.dtype
    dirname = f"{ROOT}/d0/0-thing-abcdefghij"
    res = {}

    def body():
        fs.makedirs(f"{ROOT}/d0", exist_ok=True)
        be = strax.FileSytemBackend()
        md = dict(run_id="0", data_type="thing", data_kind="things", dtype=dtype, lineage_hash="abcdefghij",
                  compressor=w["compressor"], lineage={"thing": ("P", "0", {})},
                  chunk_target_size_mb=w["target_mb"])
        saver = be.saver(dirname, md, saver_timeout=60)

        def source():
            for i, data in enumerate(parts):
                yield strax.Chunk(start=bounds[i], end=bounds[i + 1], data=data, data_type="thing",
                                  data_kind="things", dtype=dtype, run_id="0", target_size_mb=w["target_mb"])
        ex = SimExecutor(w["save_workers"]) if w["save_workers"] else None
        saver.save_from(source(), rechunk=w["rechunk"], executor=ex)
        if ex is not None:
            ex.shutdown(wait=True)
        res["saved"] = True
        res["tree"] = fs.tree(dirname)
        with fs.open(f"{dirname}/thing-abcdefghij-metadata.json") as f:
            res["md"] = json.loads(f.read())
        lex = SimExecutor(w["load_workers"]) if w["load_workers"] else None
        loaded = []
        for c in be.loader(dirname, executor=lex):
            if hasattr(c, "result"):
                c = c.result()
            loaded.append((c.start, c.end, c.data.copy()))
        if lex is not None:
            lex.shutdown(wait=True)
        res["loaded"] = loaded
        return True

    with R:
        out = R.main(body)
    sim = R.sim
    vio = None
    ab = classify_abort(sim)
    inconclusive = ab == "inconclusive"
    if isinstance(ab, Violation):
        vio = ab
    if vio is None and sim.lost_wakeups:
        vio = Violation("LOST_WAKEUP", "a thread keeps waiting although its condition holds", sim.lost_wakeups[0])
    if vio is None and sim.hangs:
        vio = Violation("HANG", "progress only by timeout", sim.hangs[0])
    if vio is None and out[0] == "exc":
        e = out[1]
        if isinstance(e, S.HarnessError):
            raise e
        stage = "load" if res.get("saved") else "save"
        vio = Violation("EXC", f"{stage} of valid input raised {sig_of_exception(e)}", repr(e)[:800])
    if vio is None and out[0] == "ok" and not inconclusive:
        vio = judge(w, arr, bounds, res, fs, dirname)
    st = R.stats()
    r = {
        "verdict": "violation" if vio else ("inconclusive" if inconclusive else "ok"),
        "vio": vio.to_json() if vio else None,
        "trace_hash": R.trace_hash(jhash(w)),
        "nontrivial": len(arr) > 0,
        "stats": st,
        "states": set(),
        "probes": {f"compressor_{w['compressor']}": 1, f"dtype_{w['dtype']}": 1,
                   "rechunk_runs": int(w["rechunk"]), "pool_save_runs": int(w["save_workers"] > 0),
                   "pool_load_runs": int(w["load_workers"] > 0),
                   "chunks_written": len(res.get("md", {}).get("chunks", [])),
                   "rechunk_changed_layout": int(bool(res.get("loaded")) and
                                                 [c[0] for c in res["loaded"]] != bounds[:-1]),
                   "zero_duration_inputs": int(any(a == b for a, b in zip(bounds[:-1], bounds[1:])))},
        "strategy": strategy.split(":")[0],
        "replay": {"workload": w, "schedule": list(sim.trace), "strategy": strategy},
        "sample": {"dtype": w["dtype"], "compressor": w["compressor"], "rechunk": w["rechunk"],
                   "target_mb": w["target_mb"], "bounds_in": bounds, "n_rows": len(arr),
                   "bounds_out": [c[0] for c in res.get("loaded", [])] + ([res["loaded"][-1][1]] if res.get("loaded") else []),
                   "save_workers": w["save_workers"], "load_workers": w["load_workers"],
                   "fs_ops": st["fs_ops"]},
    }
    return r


def judge(w, arr, bounds, res, fs, dirname):
    loaded = res["loaded"]
    md = res["md"]
    if not loaded:
        return Violation("NO_CHUNKS", "loader yielded nothing")
    got = np.concatenate([c[2] for c in loaded])
    if got.dtype != arr.dtype:
        return Violation("WRONG_ROWS", "dtype changed in the round trip", f"{got.dtype} vs {arr.dtype}")
    if got.tobytes() != arr.tobytes():
        return Violation("WRONG_ROWS", "loaded rows are not bit-identical to the saved rows",
                         f"{len(got)} rows loaded, {len(arr)} saved")
    if loaded[0][0] != bounds[0] or loaded[-1][1] != bounds[-1]:
        return Violation("WRONG_RANGE", "overall time range changed",
                         (loaded[0][0], loaded[-1][1], bounds[0], bounds[-1]))
    prev = None
    for i, (a, b, data) in enumerate(loaded):
        if prev is not None and a != prev:
            return Violation("BAD_BOUNDS", "loaded chunks are not contiguous", (i, prev, a))
        prev = b
        if len(data):
            if data["time"].min() < a or strax.endtime(data).max() > b:
                return Violation("BAD_BOUNDS", "row outside its loaded chunk", (i, a, b))
    lb = [c[0] for c in loaded] + [loaded[-1][1]]
    if not w["rechunk"]:
        if lb != bounds:
            return Violation("BAD_BOUNDS", "chunk boundaries changed without rechunking", (lb, bounds))
    else:
        et = strax.endtime(arr) if len(arr) else np.zeros(0)
        for b in lb:
            if b in bounds:
                continue
            if len(arr) and np.any((arr["time"] < b) & (et > b)):
                return Violation("BAD_BOUNDS", "rechunked boundary cuts through a row", b)
    # metadata against files
    if "writing_ended" not in md or "exception" in md:
        return Violation("BAD_METADATA", "completion marker missing or exception recorded for a clean save",
                         {k: md.get(k) for k in ("writing_ended", "exception")})
    if md.get("start") != bounds[0] or md.get("end") != bounds[-1]:
        return Violation("BAD_METADATA", "top-level start/end wrong", (md.get("start"), md.get("end"), bounds[0], bounds[-1]))
    if md.get("compressor") != w["compressor"] or md.get("run_id") != "0":
        return Violation("BAD_METADATA", "compressor / run id not recorded", (md.get("compressor"), md.get("run_id")))
    if len(md["chunks"]) != len(loaded):
        return Violation("BAD_METADATA", "number of chunk records differs from chunks loaded",
                         (len(md["chunks"]), len(loaded)))
    for i, (ci, (a, b, data)) in enumerate(zip(md["chunks"], loaded)):
        exp = {"n": len(data), "nbytes": data.nbytes, "start": a, "end": b, "run_id": "0", "chunk_i": i}
        for k, v in exp.items():
            if ci.get(k) != v:
                return Violation("BAD_METADATA", f"chunk record field {k} disagrees with the data",
                                 (i, k, ci.get(k), v))
        if len(data):
            et = strax.endtime(data)
            exp2 = {"first_time": int(data["time"][0]), "last_time": int(data["time"][-1]),
                    "first_endtime": int(et[0]), "last_endtime": int(et[-1])}
            for k, v in exp2.items():
                if ci.get(k) != v:
                    return Violation("BAD_METADATA", f"chunk record field {k} disagrees with the data",
                                     (i, k, ci.get(k), v))
            fn = f"{dirname}/{ci.get('filename')}"
            if not fs.isfile(fn):
                return Violation("BAD_METADATA", "chunk file named in the metadata does not exist", fn)
            if "filesize" in ci and ci["filesize"] != len(fs.files[fn]):
                return Violation("BAD_METADATA", "recorded filesize differs from the stored file",
                                 (ci["filesize"], len(fs.files[fn])))
    leftovers = [p for p in res["tree"] if p.endswith("_temp") or "/metadata_" in p]
    if leftovers:
        return Violation("LEFTOVERS", "temporary files remain after a clean save", leftovers[:4])
    return None


def run_one(seed, tier, replay=None, lenient=False):
    if replay is not None:
        return execute(replay["workload"], seed, strategy=replay.get("strategy", "random"),
                       forced=replay["schedule"], strict=not lenient)
    w = gen(seed, tier)
    spec = S.swarm_strategy_spec(rng_for(seed, "strategy"), starve_names=("pool", "main"))
    return execute(w, seed, strategy=spec)


def warm():
    for s in range(4):
        run_one(s, "quick")
