"""C09 - overlap-window plugins give chunking-independent results at chunk boundaries.

The C01 engine with the generator pinned to graphs containing an OverlapWindowPlugin
(single- or multi-output, per-row and per-group window-local computations): disjoint
sorted inputs, many chunks shorter than the window, rows longer than the window, empty
and zero-duration chunks, symmetric / asymmetric / zero windows.  Oracle: whole-run
evaluation; contiguous output chunks; for the multi-output plugin both outputs are
chunked identically.  The schedule dimension adds the real delivery path (final flush
after the input ends, lazy fetching), not oracle strength.
"""
from .. import plugins as P
from .. import sched as S
from ..core import Violation, rng_for
from ..pipeline import PipelineRun, common_verdict
from . import c01

PROPERTY = "C09"
LEVEL = "exploration"
QUICK_RUNS = 4000
THOROUGH_RUNS = 100_000
QUICK_BUDGET_S = 100
BATCH = 25
SMOKE_RUNS = 5
DETERMINISM_RUNS = 40
COMPONENTS = dict(c01.COMPONENTS)
KINDS = ("rowmap", "filter", "merge2", "multi", "loop", "overlap", "overlapm")


def gen(seed, tier):
    r = rng_for(seed, "c09")
    must = [r.choice(["overlap", "overlap", "overlapm"])]
    w = c01.gen(seed, tier, kinds=KINDS, must=must, disjoint_sources=True,
                bounds_style=["many", "many", "random", "few", "one"], long_rows_p=0.4, max_chunks=10,
                n_derived=(1, 4))
    spec = w["spec"]
    nb = P.node_by_type(spec)
    # prefer the overlap plugin's own output(s) as the target half of the time
    ov = [d for n in spec["nodes"] if n["kind"] in ("overlap", "overlapm") for d in P.names_of(n)]
    if ov and r.random() < 0.5:
        w["target"] = r.choice(ov)
        w["stored"] = {k: v for k, v in w["stored"].items() if k != w["target"]}
        # the capacity rule ("above the largest lag") depends on the target: re-apply it
        from .. import gen as G
        if w["cfg"]["processor"] == "threaded_mailbox" and G.reconvergent(spec, w["target"]) \
                and G.has_lag(spec, w["target"], w["stored"]):
            w["cfg"]["max_messages"] = 10_000
    w["sibling_check"] = nb[w["target"]]["kind"] == "overlapm"
    return w


shrink = c01.shrink


def execute(w, seed, strategy="random", forced=None, strict=False):
    r = c01.execute(w, seed, strategy=strategy, forced=forced, strict=strict)
    r["probes"]["overlap_runs"] = 1
    if r["verdict"] != "ok" or not w.get("sibling_check"):
        return r
    spec, target = w["spec"], w["target"]
    node = P.node_by_type(spec)[target]
    sib = [d for d in node["names"] if d != target][0]
    if target in w["stored"] or sib in w["stored"]:
        return r
    bounds = {}
    for t in (target, sib):
        ww = dict(w, target=t, cfg=dict(w["cfg"], processor="single_thread", max_workers=1))
        pr = PipelineRun(ww, seed, strategy="random")
        out_box = {}

        def body():
            pr.build()
            ctx = pr.context()
            from ..pipeline import prestore
            for d, b in sorted(w["stored"].items()):
                prestore(ctx, pr.run_id, d, pr.oracle[d], b)
            out_box["chunks"] = pr.get_chunks(ctx, t)
            return True
        with pr.R:
            out = pr.R.main(body)
        if out[0] != "ok":
            return r
        bounds[t] = [(a, b) for a, b, _, _ in out_box["chunks"]]
    r["probes"]["sibling_alignment_checked"] = 1
    if bounds[target] != bounds[sib]:
        vio = Violation("MISALIGNED", "outputs of a multi-output overlap-window plugin are chunked differently",
                        f"{target}: {bounds[target][:6]} vs {sib}: {bounds[sib][:6]}")
        r["verdict"] = "violation"
        r["vio"] = vio.to_json()
    return r


def run_one(seed, tier, replay=None, lenient=False):
    if replay is not None:
        return execute(replay["workload"], seed, strategy=replay.get("strategy", "random"),
                       forced=replay["schedule"], strict=not lenient)
    w = gen(seed, tier)
    spec = S.swarm_strategy_spec(rng_for(seed, "strategy"))
    return execute(w, seed, strategy=spec)


def warm():
    for s in range(3):
        run_one(s, "quick")
