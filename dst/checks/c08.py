"""C08 - plugins see time-aligned inputs and receive each input row exactly once.

A recorder plugin with 1..4 dependencies of 1..3 data kinds runs inside the simulated
pipeline (both processors, lazy/eager); every dependency arrives in its own chunking
(computed from independently chunked sources, or loaded from storage in an unrelated
chunking).  Invariants are evaluated on the recorded arguments of every compute call.
Fault: one dependency's stream ends early; a default-saved plugin must then raise
instead of silently dropping rows.

The truth of C08 does not depend on the schedule; the simulation contributes the real
delivery path (mailboxes / post office, concurrent producers), the stream fault and
replayability.
"""
import numpy as np

from .. import gen as G
from .. import plugins as P
from .. import sched as S
from ..core import Violation, rng_for
from ..pipeline import PipelineRun, base_result, common_verdict, prestore, sig_of_exception
from . import c01

PROPERTY = "C08"
LEVEL = "exploration"
QUICK_RUNS = 15000
THOROUGH_RUNS = 150_000
QUICK_BUDGET_S = 100
BATCH = 25
SMOKE_RUNS = 6
DETERMINISM_RUNS = 40
COMPONENTS = dict(c01.COMPONENTS)


def gen(seed, tier):
    r = rng_for(seed, "workload")
    big = tier == "thorough"
    n_kinds = r.randint(1, 3)
    all_rows = []
    for i in range(n_kinds):
        all_rows.append(G.gen_rows(r, r.randint(0, 12 if big else 8), disjoint=r.random() < 0.5,
                                   long_rows=r.random() < 0.2))
    start, end = G.run_span(all_rows, r)
    nodes = []
    by_kind = []
    for i, rows in enumerate(all_rows):
        name = f"s{chr(97 + i)}"
        nodes.append({"name": name, "kind": "source", "rows": rows,
                      "bounds": G.gen_bounds(r, rows, start, end, max_chunks=8)})
        by_kind.append([name])
    # same-kind companions (row aligned): rowmaps of a source
    n_extra = r.randint(0, 2)
    for j in range(n_extra):
        k = r.randrange(n_kinds)
        name = f"m{j}"
        nodes.append({"name": name, "kind": "rowmap", "dep": by_kind[k][0], "a": r.choice([1, 2, 3]),
                      "b": r.randint(0, 5)})
        by_kind[k].append(name)
    pool = [d for ks in by_kind for d in ks]
    n_deps = r.randint(1, min(4, len(pool)))
    deps = r.sample(pool, n_deps)
    nodes.append({"name": "rec", "kind": "recorder", "deps": deps})
    spec = {"run_id": "0", "nodes": nodes}
    orc = P.oracle(spec)
    stored = {}
    for d in deps:
        if P.node_by_type(spec)[d]["kind"] == "rowmap" and r.random() < 0.6 or r.random() < 0.15:
            rows = [[int(a), int(b), 0] for a, b in zip(orc[d]["time"], orc[d]["endtime"])]
            stored[d] = G.gen_bounds(r, rows, start, end, max_chunks=7)
    save_when = r.choice(["ALWAYS", "ALWAYS", "TARGET", "NEVER"])
    for n in nodes:
        n["opts"] = {"save_when": r.choice(["ALWAYS", "NEVER"]), "rechunk_on_save": False}
    nodes[-1]["opts"] = {"save_when": save_when, "rechunk_on_save": r.random() < 0.5}
    if r.random() < 0.3:
        # a two-output recorder with its own save policy per output: it saves by default as soon as ONE of its
        # outputs does
        sw = {"rec": save_when, "recy": r.choice(["ALWAYS", "TARGET", "EXPLICIT", "NEVER"])}
        nodes[-1] = {"names": ["rec", "recy"], "kind": "recorderm", "deps": deps,
                     "opts": {"save_when": sw, "rechunk_on_save": {"rec": r.random() < 0.5, "recy": False}}}
        if sw["recy"] in ("ALWAYS", "TARGET") and save_when == "NEVER":
            save_when = sw["recy"]
    cfg = G.gen_proc_config(r, spec, "rec", stored=stored, tier=tier, allow_pool=False)
    w = {"spec": spec, "target": "rec", "cfg": cfg, "stored": stored, "fs_order": 0,
         "est_steps": 500, "fault": None}
    # stream fault: drop the last chunk of one source that is (an ancestor of) a dependency
    if save_when != "NEVER" and r.random() < 0.3 and len(deps) >= 2:
        cands = []
        for n in nodes:
            if n["kind"] == "source" and len(n["bounds"]) >= 3 and n["bounds"][-1] > n["bounds"][-2] \
                    and (n["name"] in deps or any(P.node_by_type(spec)[d].get("dep") == n["name"] for d in deps)):
                users = [d for d in deps if d == n["name"] or P.node_by_type(spec)[d].get("dep") == n["name"]]
                others = [d for d in deps if d not in users]
                if others and not any(u in stored for u in users):
                    cands.append(n["name"])
        if cands:
            w["fault"] = {"type": "short_stream", "source": r.choice(sorted(cands))}
    return w


def apply_fault(spec, fault):
    """The faulty source loses its last chunk (and the rows in it): its stream ends early."""
    nodes = []
    for n in spec["nodes"]:
        if n["kind"] == "source" and n["name"] == fault["source"]:
            cut = n["bounds"][-2]
            n = dict(n, bounds=n["bounds"][:-1], rows=[x for x in n["rows"] if x[1] <= cut])
        nodes.append(n)
    return dict(spec, nodes=nodes)


def shrink(w):
    spec = w["spec"]
    if w["stored"]:
        for d in sorted(w["stored"]):
            yield dict(w, stored={k: v for k, v in w["stored"].items() if k != d})
    rec = spec["nodes"][-1]
    if len(rec["deps"]) > 1 and not w.get("fault"):
        for d in rec["deps"]:
            nodes = spec["nodes"][:-1] + [dict(rec, deps=[x for x in rec["deps"] if x != d])]
            yield dict(w, spec=dict(spec, nodes=nodes), stored={k: v for k, v in w["stored"].items() if k != d})


def check_log(log, spec_used, orc, deps, kinds):
    """Invariants over the recorded compute calls of the recorder.  Returns Violation or None,
    plus the set of (kind, row) that were delivered."""
    calls = [rec for rec in log if rec[0] == "rec"]
    s, e = P.run_range(spec_used)
    prev_end = None
    delivered = {}
    for i, (_, a, b, counts, rows) in enumerate(calls):
        if a is None or b is None or a > b:
            return Violation("BAD_CALL", "compute called without a valid [start, end)", (i, a, b)), None
        if prev_end is not None and a != prev_end:
            return Violation("NOT_ADJACENT", "successive compute calls do not cover adjacent intervals",
                             (i, prev_end, a)), None
        prev_end = b
        for kind, (ts, es) in rows.items():
            for t, en in zip(ts, es):
                if t < a or en > b:
                    return Violation("ROW_OUTSIDE", "compute received a row outside its [start, end)",
                                     (i, a, b, t, en)), None
            delivered.setdefault(kind, []).extend(zip(ts, es))
    if calls and calls[0][1] != s:
        return Violation("NOT_FROM_START", "first compute call does not start at the run start",
                         (calls[0][1], s)), None
    return None, delivered


def execute(w, seed, strategy="random", forced=None, strict=False):
    fault = w.get("fault")
    spec = w["spec"]
    spec_used = apply_fault(spec, fault) if fault else spec
    ww = dict(w, spec=spec_used)
    pr = PipelineRun(ww, seed, strategy=strategy, forced=forced, strict=strict)
    res = {}
    kinds = P.kinds_of(spec_used)
    deps = spec_used["nodes"][-1]["deps"]

    def body():
        pr.build()
        ctx = pr.context()
        for d, bounds in sorted(w["stored"].items()):
            prestore(ctx, pr.run_id, d, pr.oracle[d], bounds)
        pr.install_invariants()
        try:
            res["rows"] = ctx.get_array(pr.run_id, "rec", processor=w["cfg"]["processor"],
                                        max_workers=1, progress_bar=False)
            res["outcome"] = "returned"
        except S.SimAbort:
            raise
        except Exception as e:
            res["outcome"] = "raised"
            res["exc"] = e
        return True

    with pr.R:
        out = pr.R.main(body)
    vio, inconclusive = common_verdict(pr, out)
    n_calls = sum(1 for rec in pr.log if rec[0] == "rec")
    if vio is None and not inconclusive:
        if out[0] == "exc":
            vio = Violation("EXC", f"harness phase: {sig_of_exception(out[1])}", repr(out[1])[:600])
        else:
            if res["outcome"] == "raised" and isinstance(res["exc"], S.HarnessError):
                raise res["exc"]
            v, delivered = check_log(pr.log, spec_used, pr.oracle, deps, kinds)
            if v is not None:
                vio = v
            else:
                # exactly once, in time order, per kind
                missing = {}
                for d in deps:
                    k = kinds[d]
                    exp = list(zip(pr.oracle[d]["time"].tolist(), pr.oracle[d]["endtime"].tolist()))
                    got = delivered.get(k, [])
                    if got != exp:
                        if len(got) > len(exp) or got != exp[: len(got)]:
                            if res["outcome"] == "returned" or len(set(got)) < len(got):
                                vio = Violation("NOT_EXACTLY_ONCE", "input rows delivered twice / out of order / "
                                                                    "wrong rows", f"{d}: got {got[:8]} expected {exp[:8]}")
                                break
                        missing[d] = len(exp) - len(got)
                if vio is None:
                    if res["outcome"] == "returned":
                        if missing:
                            vio = Violation("SILENTLY_DROPPED",
                                            "input rows were never handed to compute and no error was raised"
                                            + (" (stream ended early)" if fault else ""), str(missing))
                        elif not P.rows_equal(res["rows"], pr.oracle["rec"]):
                            vio = Violation("WRONG_ROWS", "recorder output differs from whole-run evaluation",
                                            P.describe_diff(res["rows"], pr.oracle["rec"]))
                    elif not fault:
                        vio = Violation("EXC", f"fault-free: {sig_of_exception(res['exc'])}", repr(res["exc"])[:600])
    r = base_result(pr, w, vio, inconclusive, strategy=strategy,
                    extra_probes={"compute_calls": n_calls, "n_deps": len(deps),
                                  "n_kinds": len({kinds[d] for d in deps}),
                                  "fault_runs": int(bool(fault)),
                                  "fault_raised": int(bool(fault) and res.get("outcome") == "raised"),
                                  "loaded_deps": len(w["stored"])})
    if fault:
        r["faults"] = {"short_stream": 1}
    r["sample"] = {"deps": deps, "kinds": [kinds[d] for d in deps], "cfg": w["cfg"], "fault": fault,
                   "stored": {k: v for k, v in w["stored"].items()},
                   "bounds": {n["name"]: n["bounds"] for n in spec_used["nodes"] if n["kind"] == "source"},
                   "n_rows": {n["name"]: len(n["rows"]) for n in spec_used["nodes"] if n["kind"] == "source"},
                   "compute_calls": [(rec[1], rec[2], rec[3]) for rec in pr.log if rec[0] == "rec"][:12],
                   "outcome": res.get("outcome"),
                   "exception": sig_of_exception(res["exc"]) if res.get("exc") is not None else None}
    return r


def run_one(seed, tier, replay=None, lenient=False):
    if replay is not None:
        return execute(replay["workload"], seed, strategy=replay.get("strategy", "random"),
                       forced=replay["schedule"], strict=not lenient)
    w = gen(seed, tier)
    spec = S.swarm_strategy_spec(rng_for(seed, "strategy"))
    return execute(w, seed, strategy=spec)


def warm():
    for s in range(3):
        run_one(s, "quick")
