"""C11 - only what is missing is computed, and only what policy allows is saved.

Generated graph x stored subset x request on SimFS with two storage front-ends (readonly /
take_only / exclude filters), both processors, seeded schedules.  A 40-line reference
planner written from the property statement predicts which plugins must run, what is
loaded, what is saved where, and which requests must fail; observed: compute-call logs of
the harness plugins (0 calls <=> must not run; inputs delivered exactly once), the returned
rows, the exception, and the directory diff of both front-ends (re-read by a fresh context).
"""
import numpy as np

import strax

from .. import gen as G
from .. import plugins as P
from .. import sched as S
from ..core import Violation, rng_for
from ..pipeline import DATA_DIR, PipelineRun, base_result, common_verdict, prestore, sig_of_exception
from ..simfs import ROOT
from . import c01

PROPERTY = "C11"
LEVEL = "exploration"
QUICK_RUNS = 6000
THOROUGH_RUNS = 200_000
QUICK_BUDGET_S = 100
BATCH = 40
SMOKE_RUNS = 8
DETERMINISM_RUNS = 40
COMPONENTS = dict(c01.COMPONENTS)
D1 = ROOT + "/d1"
RANK = {"NEVER": 0, "EXPLICIT": 1, "TARGET": 2, "ALWAYS": 3}


def policy(nb, d):
    sw = nb[d]["opts"]["save_when"]
    return sw[d] if isinstance(sw, dict) else sw


def gen(seed, tier):
    r = rng_for(seed, "workload")
    both = r.random() < 0.35
    spec = G.gen_graph(r, n_derived=(2, 5), n_sources=(1, 2), n_rows=(0, 8), max_chunks=4,
                       kinds=("rowmap", "filter", "merge2", "multi", "loop", "multi2", "rowmap"),
                       must_have=[r.choice(["multi", "multi2"])] if both else None)
    if both:
        # a consumer of BOTH outputs of a multi-output plugin (the planner must treat each output on its own)
        m = [n for n in spec["nodes"] if n["kind"] in ("multi", "multi2")][0]
        deps = list(m["names"])
        if r.random() < 0.5:
            deps.reverse()
        spec["nodes"].append({"name": "both", "kind": "recorder", "deps": deps})
    nb = P.node_by_type(spec)
    types = [d for n in spec["nodes"] for d in P.names_of(n)]
    for n in spec["nodes"]:
        if "names" in n:
            n["opts"] = {"save_when": {d: r.choice(["ALWAYS", "TARGET", "EXPLICIT", "NEVER"]) for d in n["names"]},
                         "rechunk_on_save": {d: r.random() < 0.4 for d in n["names"]}}
        else:
            n["opts"] = {"save_when": r.choice(["ALWAYS", "ALWAYS", "TARGET", "EXPLICIT", "NEVER"]),
                         "rechunk_on_save": r.random() < 0.4}
    derived = [d for n in spec["nodes"] if n["kind"] != "source" for d in P.names_of(n)]
    target = "both" if (both and r.random() < 0.8) else r.choice(derived)
    need = sorted(G.needed_for(spec, target))
    orc = P.oracle(spec)
    s, e = P.run_range(spec)
    # front-end 0 may be filtered / readonly; front-end 1 is a plain writable directory
    fe0 = {"readonly": r.random() < 0.3, "take_only": [], "exclude": []}
    # take_only and exclude are independent: a type listed in both is documented as "not provided"
    if r.random() < 0.3:
        fe0["take_only"] = sorted(r.sample(types, r.randint(1, len(types))))
    if r.random() < 0.3:
        fe0["exclude"] = sorted(r.sample(types, r.randint(1, max(1, len(types) // 2))))
    stored = {}
    for d in types:
        if r.random() < 0.3:
            rows = [[int(a), int(b), 0] for a, b in zip(orc[d]["time"], orc[d]["endtime"])]
            stored[d] = {"frontend": r.choice([0, 1]), "bounds": G.gen_bounds(r, rows, s, e, max_chunks=4)}
    mod = r.choice(["none", "none", "none", "selection", "keep_columns", "drop_columns", "time_range", "fuzzy",
                    "allow_incomplete"])
    explicit = [d for d in need if policy(nb, d) == "EXPLICIT"]
    save = sorted(r.sample(explicit, r.randint(0, len(explicit)))) if explicit else []
    if r.random() < 0.05:
        nev = [d for d in need if policy(nb, d) == "NEVER"]
        if nev:
            save = save + [r.choice(nev)]
    forbid = []
    if r.random() < 0.2:
        forbid = [r.choice(need)] if r.random() < 0.8 else ["*"]
    cfg = G.gen_proc_config(r, spec, target, stored=stored, tier=tier)
    if mod == "fuzzy":
        cfg["fuzzy_for"] = (r.choice(need),)
    if mod == "allow_incomplete":
        cfg["allow_incomplete"] = True
    if forbid:
        cfg["forbid_creation_of"] = tuple(forbid)
    return {"spec": spec, "target": target, "cfg": cfg, "stored2": stored, "stored": {}, "fe0": fe0, "mod": mod,
            "save": save, "fs_order": r.choice([0, 1, 6]), "est_steps": 500}


def shrink(w):
    if w["stored2"]:
        for d in sorted(w["stored2"]):
            yield dict(w, stored2={k: v for k, v in w["stored2"].items() if k != d})
    if w["mod"] != "none":
        cfg = {k: v for k, v in w["cfg"].items() if k not in ("fuzzy_for", "allow_incomplete")}
        yield dict(w, mod="none", cfg=cfg)
    if w["fe0"]["take_only"] or w["fe0"]["exclude"] or w["fe0"]["readonly"]:
        yield dict(w, fe0={"readonly": False, "take_only": [], "exclude": []})
    if w["save"]:
        yield dict(w, save=[])


# --------------------------------------------------------------------------
class Expect(Exception):
    pass


def takes(fe, d):
    return not (d in fe["exclude"] or (fe["take_only"] and d not in fe["take_only"]))


def plan(w):
    """Reference planner (from the property statement, not from get_components)."""
    spec, target = w["spec"], w["target"]
    nb = P.node_by_type(spec)
    fes = [w["fe0"], {"readonly": False, "take_only": [], "exclude": []}]
    readable = {d for d, st in w["stored2"].items() if takes(fes[st["frontend"]], d)}
    forbid = w["cfg"].get("forbid_creation_of", ())
    partial = w["mod"] in ("selection", "keep_columns", "drop_columns", "time_range", "fuzzy", "allow_incomplete")
    run, load, seen = [], set(), set()
    err = None
    errs = set()

    def visit(d):
        # a request can be invalid in several independent ways (a needed type may not be created AND a
        # never-saved type is asked to be saved): which one is reported first is not part of the property,
        # so the traversal goes on past a refusal (not below it) and every applicable error is acceptable
        nonlocal err
        if d in seen:
            return
        seen.add(d)
        if d in readable:
            load.add(d)
            return
        if w["mod"] == "time_range" and RANK[policy(nb, d)] > RANK["EXPLICIT"]:
            err = err or "DataNotAvailable"
            errs.add("DataNotAvailable")
            return
        if "*" in forbid or d in forbid:
            err = err or "DataNotAvailable"
            errs.add("DataNotAvailable")
            return
        n = nb[d]
        if n not in run:
            run.append(n)
        for dep in P.deps_of(n):
            visit(dep)
    visit(target)
    saved = {0: set(), 1: set()}
    for n in run:
        for d in P.names_of(n):
            pol = policy(nb, d)
            if pol == "NEVER" and d in w["save"] and d not in readable:
                err = err or "ValueError"      # asking to save a never-saved type that would be computed
                errs.add("ValueError")
        # NEVER + save= is only noticed for types whose plugin is visited
    if err is None and not partial:
        for n in run:
            for d in P.names_of(n):
                if d in readable:
                    continue
                pol = policy(nb, d)
                ok = pol == "ALWAYS" or (pol == "TARGET" and d == target) or (pol == "EXPLICIT" and d in w["save"])
                if ok:
                    for i, fe in enumerate(fes):
                        if not fe["readonly"] and takes(fe, d):
                            saved[i].add(d)
    return {"run": {P.names_of(n)[0] for n in run}, "load": load, "saved": saved, "error": err,
            "errors": errs, "readable": readable}


def final_dirs(fs, root, run_id):
    out = set()
    if not fs.isdir(root):
        return out
    for name in fs.listdir(root):
        parts = name.split("-")
        if len(parts) == 3 and parts[0] == run_id and not name.endswith("_temp"):
            out.add(parts[1])
    return out


def execute(w, seed, strategy="random", forced=None, strict=False):
    pr = PipelineRun(w, seed, strategy=strategy, forced=forced, strict=strict)
    spec, target = w["spec"], w["target"]
    nb = P.node_by_type(spec)
    res = {}
    exp = plan(w)

    def body():
        pr.build()
        writer = pr.context(storage=[strax.DataDirectory(DATA_DIR), strax.DataDirectory(D1)],
                            extra={"forbid_creation_of": (), "fuzzy_for": (), "allow_incomplete": False})
        for d, st in sorted(w["stored2"].items()):
            prestore(writer, pr.run_id, d, pr.oracle[d], st["bounds"], frontend=st["frontend"])
        before = {0: final_dirs(pr.fs, DATA_DIR, pr.run_id), 1: final_dirs(pr.fs, D1, pr.run_id)}
        fe0 = w["fe0"]
        ctx = pr.context(storage=[strax.DataDirectory(DATA_DIR, readonly=fe0["readonly"],
                                                      take_only=tuple(fe0["take_only"]),
                                                      exclude=tuple(fe0["exclude"])),
                                  strax.DataDirectory(D1)])
        pr.install_invariants()
        kw = {}
        s, e = P.run_range(spec)
        if w["mod"] == "selection":
            kw["selection"] = f"v_{target} > 20"
        elif w["mod"] == "keep_columns":
            kw["keep_columns"] = ("time", f"v_{target}")
        elif w["mod"] == "drop_columns":
            kw["drop_columns"] = (f"v_{target}",)
        elif w["mod"] == "time_range":
            kw["time_range"] = (s, e)
        del pr.log[:]
        try:
            res["rows"] = ctx.get_array(pr.run_id, target, save=tuple(w["save"]), processor=w["cfg"]["processor"],
                                        max_workers=w["cfg"]["max_workers"], progress_bar=False, **kw)
            res["outcome"] = "returned"
        except S.SimAbort:
            raise
        except Exception as ex:
            res["outcome"] = "raised"
            res["exc"] = ex
        res["alive"] = [t.name for t in pr.R.sim.live_threads()]
        res["log"] = list(pr.log)
        after = {0: final_dirs(pr.fs, DATA_DIR, pr.run_id), 1: final_dirs(pr.fs, D1, pr.run_id)}
        res["new"] = {i: after[i] - before[i] for i in (0, 1)}
        res["gone"] = {i: before[i] - after[i] for i in (0, 1)}
        # everything that is stored now must load correctly (per front-end)
        bad = None
        for i, root in ((0, DATA_DIR), (1, D1)):
            fresh = pr.context(storage=[strax.DataDirectory(root)], extra={"forbid_creation_of": "*", "fuzzy_for": (),
                                                                           "allow_incomplete": False})
            for d in sorted(after[i]):
                try:
                    arr = fresh.get_array(pr.run_id, d, processor="single_thread", progress_bar=False)
                    if not P.rows_equal(arr, pr.oracle[d]):
                        bad = (i, d, P.describe_diff(arr, pr.oracle[d]))
                except Exception as ex:
                    bad = (i, d, sig_of_exception(ex))
        res["bad_stored"] = bad
        return True

    with pr.R:
        out = pr.R.main(body)
    vio, inconclusive = common_verdict(pr, out)
    ran = set()
    if vio is None and not inconclusive:
        if out[0] == "exc":
            vio = Violation("EXC", f"harness phase: {sig_of_exception(out[1])}", repr(out[1])[:600])
        else:
            if res.get("exc") is not None and isinstance(res["exc"], S.HarnessError):
                raise res["exc"]
            ran = {rec[0] for rec in res["log"] if not rec[0].startswith("__")}
            if exp["error"]:
                if res["outcome"] != "raised":
                    vio = Violation("NO_ERROR", f"request that must fail ({exp['error']}) returned normally",
                                    f"forbid={w['cfg'].get('forbid_creation_of')} mod={w['mod']} save={w['save']}")
                elif type(res["exc"]).__name__ not in exp["errors"]:
                    vio = Violation("WRONG_ERROR", f"expected {'/'.join(sorted(exp['errors']))}, got {sig_of_exception(res['exc'])}",
                                    repr(res["exc"])[:400])
                elif ran:
                    vio = Violation("COMPUTED_ANYWAY", "plugins were run although the request had to be refused",
                                    sorted(ran))
            elif res["outcome"] == "raised":
                vio = Violation("EXC", f"valid request raised {sig_of_exception(res['exc'])}", repr(res["exc"])[:600])
            else:
                if ran != exp["run"]:
                    extra, missing = sorted(ran - exp["run"]), sorted(exp["run"] - ran)
                    vio = Violation("WRONG_PLAN", ("a plugin ran although its outputs were stored or not needed"
                                                   if extra else "a needed plugin did not run"),
                                    f"ran {sorted(ran)} expected {sorted(exp['run'])} stored {sorted(exp['readable'])}")
                if vio is None:
                    want = pr.oracle[target]
                    got = res["rows"]
                    if w["mod"] == "selection":
                        want = want[want[f"v_{target}"] > 20]
                    if w["mod"] == "keep_columns":
                        ok = (got.dtype.names == ("time", f"v_{target}") and len(got) == len(want)
                              and np.array_equal(got["time"], want["time"])
                              and np.array_equal(got[f"v_{target}"], want[f"v_{target}"]))
                    elif w["mod"] == "drop_columns":
                        left = tuple(n for n in want.dtype.names if n != f"v_{target}")
                        ok = (got.dtype.names == left and len(got) == len(want)
                              and all(np.array_equal(got[n], want[n]) for n in left))
                    else:
                        ok = P.rows_equal(got, want)
                    if not ok:
                        vio = Violation("WRONG_ROWS", "result differs from the whole-run evaluation", f"mod={w['mod']}")
                if vio is None:
                    # each consumer got each needed input row exactly once
                    for name in sorted(ran):
                        n = nb[name]
                        if n["kind"] in ("source",):
                            continue
                        kinds = P.kinds_of(spec)
                        tot = {}
                        for rec in res["log"]:
                            if rec[0] == name:
                                for k, cnt in rec[3].items():
                                    tot[k] = tot.get(k, 0) + cnt
                        for dep in P.deps_of(n):
                            if tot.get(kinds[dep], 0) != len(pr.oracle[dep]):
                                vio = Violation("NOT_EXACTLY_ONCE", "a consumer did not receive each input row exactly once",
                                                f"{name} got {tot} rows, {dep} has {len(pr.oracle[dep])}")
                                break
                        if vio:
                            break
            if vio is None and not exp["error"]:
                for i in (0, 1):
                    if res["new"][i] != exp["saved"][i]:
                        extra = sorted(res["new"][i] - exp["saved"][i])
                        missing = sorted(exp["saved"][i] - res["new"][i])
                        pol = {d: policy(nb, d) for d in extra + missing}
                        vio = Violation("WRONG_SAVES", ("data saved although the policy / request forbids it" if extra
                                                        else "data the policy requires was not saved"),
                                        f"frontend {i}: extra {extra} missing {missing} policies {pol} mod={w['mod']} "
                                        f"save={w['save']} target={target} fe0={w['fe0']}")
                        break
            if vio is None and exp["error"] and (res["new"][0] or res["new"][1]):
                vio = Violation("WRONG_SAVES", "a refused request left new data in storage",
                                f"{res['new']}")
            if vio is None and (res["gone"][0] or res["gone"][1]):
                vio = Violation("DATA_REMOVED", "stored data disappeared", f"{res['gone']}")
            if vio is None and res["bad_stored"]:
                vio = Violation("STORED_WRONG", "data in storage after the request does not load correctly",
                                str(res["bad_stored"]))
            if vio is None and res["alive"]:
                vio = Violation("THREADS_ALIVE", "threads alive after the request", res["alive"])
    r = base_result(pr, w, vio, inconclusive, strategy=strategy,
                    extra_probes={f"mod_{w['mod']}": 1, "expected_errors": int(bool(exp["error"])),
                                  "plugins_run": len(ran), "types_loaded": len(exp["load"]),
                                  "types_saved": len(exp["saved"][0]) + len(exp["saved"][1]),
                                  "filtered_frontend": int(bool(w["fe0"]["take_only"] or w["fe0"]["exclude"])),
                                  "readonly_frontend": int(w["fe0"]["readonly"]),
                                  "single_thread_runs": int(w["cfg"]["processor"] == "single_thread")})
    r["sample"] = {"target": target, "cfg": w["cfg"], "mod": w["mod"], "save": w["save"], "fe0": w["fe0"],
                   "stored": {d: st["frontend"] for d, st in w["stored2"].items()},
                   "nodes": [{k: v for k, v in n.items() if k != "rows"} for n in spec["nodes"]],
                   "expected": {"run": sorted(exp["run"]), "load": sorted(exp["load"]),
                                "saved": {i: sorted(v) for i, v in exp["saved"].items()}, "error": exp["error"]},
                   "outcome": res.get("outcome")}
    return r


def run_one(seed, tier, replay=None, lenient=False):
    if replay is not None:
        return execute(replay["workload"], seed, strategy=replay.get("strategy", "random"),
                       forced=replay["schedule"], strict=not lenient)
    w = gen(seed, tier)
    spec = S.swarm_strategy_spec(rng_for(seed, "strategy"))
    return execute(w, seed, strategy=spec)


def warm():
    for s in range(4):
        run_one(s, "quick")
