"""C12 - outputs that violate a plugin's declared contract are rejected, not stored.

Fault = a Byzantine stage: one plugin of a generated graph delivers, at one chosen
chunk / row, something other than it declares.  The pipeline (both processors, seeded
schedules, SimFS storage) must stop with an exception; afterwards a fresh context must
not find the bad output stored as valid data.
"""
import numpy as np

from .. import gen as G
from .. import plugins as P
from .. import sched as S
from ..core import Violation, rng_for
from ..pipeline import PipelineRun, base_result, common_verdict, prestore, sig_of_exception
from . import c01

PROPERTY = "C12"
LEVEL = "exploration"
QUICK_RUNS = 4000
THOROUGH_RUNS = 100_000
QUICK_BUDGET_S = 100
BATCH = 25
SMOKE_RUNS = 6
DETERMINISM_RUNS = 40
COMPONENTS = dict(c01.COMPONENTS, simulated=c01.COMPONENTS["simulated"] + [
    "Byzantine plugin outputs (wrong dtype bare / wrapped in a chunk, rows outside the chunk, wrong "
    "data_type label, gap, overlap, non-dict multi-output)"])

APPLICABLE = {
    "source": ("wrong_dtype_bare", "wrong_dtype_chunk", "rows_outside", "wrong_data_type", "gap", "overlap"),
    "rowmap": ("wrong_dtype_bare", "wrong_dtype_chunk", "rows_outside", "wrong_data_type", "gap", "overlap"),
    "filter": ("wrong_dtype_bare", "wrong_dtype_chunk", "rows_outside", "wrong_data_type"),
    "merge2": ("wrong_dtype_bare", "wrong_dtype_chunk", "rows_outside", "wrong_data_type"),
    "multi": ("wrong_dtype_bare", "wrong_dtype_chunk", "rows_outside", "wrong_data_type", "non_dict"),
    "multi2": ("wrong_dtype_bare", "wrong_dtype_chunk", "rows_outside", "wrong_data_type", "non_dict"),
    "overlap": ("wrong_dtype_bare", "rows_outside"),
    "downchunk": ("wrong_dtype_chunk", "rows_outside", "wrong_data_type", "gap", "overlap"),
    "exhaust": ("wrong_dtype_bare", "wrong_dtype_chunk", "rows_outside", "wrong_data_type"),
}


def gen(seed, tier):
    r = rng_for(seed, "workload")
    for attempt in range(20):
        w = c01.gen(seed + attempt * 7919, tier, kinds=("rowmap", "filter", "merge2", "multi", "multi2", "overlap",
                                                         "downchunk", "exhaust", "loop"))
        spec, target = w["spec"], w["target"]
        nb = P.node_by_type(spec)
        orc = P.oracle(spec)
        # nodes that certainly run: reachable from the target without crossing a stored type
        todo, running = [target], []
        while todo:
            x = todo.pop()
            if x in running or x in w["stored"]:
                continue
            running.append(x)
            todo.extend(P.deps_of(nb[x]))
        cands = [d for d in running if nb[d]["kind"] in APPLICABLE]
        if not cands:
            continue
        d = r.choice(sorted(cands))
        n = nb[d]
        kinds = list(APPLICABLE[n["kind"]])
        if d != target and not (n["kind"] in ("multi", "multi2") and target in n["names"]):
            kinds = [k for k in kinds if k not in ("gap", "overlap")]   # continuity is promised for targets
        if not kinds:
            continue
        kind = r.choice(kinds)
        if "overlap" in kinds and r.random() < 0.4:
            kind = r.choice(["overlap", "gap"])      # only targets qualify, so they would be rare otherwise
        fault = {"node": P.names_of(n)[0], "kind": kind}
        if kind == "wrong_dtype_bare" and r.random() < 0.3:
            fault["variant"] = "empty"
        elif kind == "wrong_dtype_chunk" and r.random() < 0.6:
            fault["variant"] = r.choice(["consistent", "assigned"])
        elif kind in ("gap", "overlap") and r.random() < 0.35:
            fault["variant"] = "empty"
        elif kind == "wrong_data_type" and n["kind"] in ("multi", "multi2") and r.random() < 0.5:
            fault["variant"] = "sibling"
        if kind == "rows_outside":
            fault["row"] = r.choice(["first", "middle", "last"])
        if n["kind"] in ("multi", "multi2"):
            fault["output"] = target if target in n["names"] else r.choice(n["names"])
        if n["kind"] == "source":
            nchunks = len(n["bounds"]) - 1
            idx = list(range(nchunks))
            if kind in ("gap", "overlap"):
                idx = [i for i in idx if i >= 1 and n["bounds"][i + 1] > n["bounds"][i] and n["bounds"][i] > 0]
            if not idx:
                continue
            fault["chunk"] = r.choice([idx[0], idx[len(idx) // 2], idx[-1]])
        else:
            times = sorted({int(t) for dep in P.deps_of(n) for t in orc[dep]["time"]})
            if kind in ("gap", "overlap"):
                # a first chunk may start anywhere: only a later compute call can break continuity
                fault["after_start"] = P.run_range(spec)[0]
            if not times:
                continue
            fault["row_time"] = r.choice([times[0], times[len(times) // 2], times[-1]])
        w["fault"] = fault
        w["cfg"]["allow_rechunk"] = w["cfg"]["allow_rechunk"]
        return w
    w["fault"] = None
    return w


def shrink(w):
    for c in c01.shrink(w):
        f = w["fault"]
        if f is None:
            continue
        nodes = {d for n in c["spec"]["nodes"] for d in P.names_of(n)}
        if f["node"] not in nodes:
            continue
        if "chunk" in f:
            nb = P.node_by_type(c["spec"])
            if f["chunk"] >= len(nb[f["node"]]["bounds"]) - 1:
                continue
        yield c


def execute(w, seed, strategy="random", forced=None, strict=False):
    f = w.get("fault")
    pr = PipelineRun(w, seed, strategy=strategy, forced=forced, strict=strict, fault=f)
    spec, target = w["spec"], w["target"]
    res = {}

    def body():
        pr.build()
        ctx = pr.context()
        for d, bounds in sorted(w["stored"].items()):
            prestore(ctx, pr.run_id, d, pr.oracle[d], bounds)
        pr.install_invariants()
        try:
            res["rows"] = ctx.get_array(pr.run_id, target, processor=w["cfg"]["processor"],
                                        max_workers=w["cfg"]["max_workers"], progress_bar=False)
            res["outcome"] = "returned"
        except S.SimAbort:
            raise
        except Exception as e:
            res["outcome"] = "raised"
            res["exc"] = e
        res["alive"] = [t.name for t in pr.R.sim.live_threads()]
        # afterwards, from a fresh context
        fresh = pr.context(extra={"forbid_creation_of": "*"})
        types = [d for n in spec["nodes"] for d in P.names_of(n)]
        stored_state = {}
        for d in types:
            try:
                st = fresh.is_stored(pr.run_id, d)
            except Exception as e:
                stored_state[d] = ("is_stored_raised", sig_of_exception(e))
                continue
            if not st:
                continue
            try:
                arr = fresh.get_array(pr.run_id, d, processor="single_thread", progress_bar=False)
                stored_state[d] = ("loaded", arr)
            except Exception as e:
                stored_state[d] = ("load_raised", sig_of_exception(e))
        res["stored_state"] = stored_state
        return True

    with pr.R:
        out = pr.R.main(body)
    vio, inconclusive = common_verdict(pr, out)
    hit = (any(rec[0] == "__fault__" for rec in pr.log)
           and not any(rec[0] == "__noeffect__" for rec in pr.log))
    if vio is None and not inconclusive:
        if out[0] == "exc":
            vio = Violation("EXC", f"after the run: {sig_of_exception(out[1])}", repr(out[1])[:600])
        elif f is None or not hit:
            if res["outcome"] == "raised":
                vio = Violation("EXC", f"fault-free: {sig_of_exception(res['exc'])}", repr(res["exc"])[:600])
            elif not P.rows_equal(res["rows"], pr.oracle[target]):
                vio = Violation("WRONG_ROWS", "fault did not fire and rows differ", "")
        else:
            kind = f["kind"]
            if res["outcome"] == "returned":
                vio = Violation("ACCEPTED", f"{kind} output of a {P.node_by_type(spec)[f['node']]['kind']} plugin "
                                            f"was handed to the user as a normal result",
                                f"rows dtype {res['rows'].dtype}, {len(res['rows'])} rows")
            elif isinstance(res["exc"], S.HarnessError):
                raise res["exc"]
            if vio is None and res["alive"]:
                vio = Violation("THREADS_ALIVE", "threads alive after the failing call", res["alive"])
        if vio is None and f is not None and hit and f["kind"] in ("gap", "overlap"):
            # a target whose chunks leave a gap / overlap is not left in storage as valid data - not even when a
            # rechunking saver would have glued the pieces together so that the rows happen to be complete
            bad_types = [f.get("output") or f["node"]]
            for d in bad_types:
                if d in res.get("stored_state", {}):
                    state, val = res["stored_state"][d]
                    vio = Violation("STORED_INVALID", f"a target whose chunks {'overlap' if f['kind'] == 'overlap' else 'leave a gap'} "
                                                      f"was left in storage as valid data", f"{d}: {state}")
                    break
        if vio is None:
            for d, (state, val) in sorted(res.get("stored_state", {}).items()):
                if state == "loaded":
                    if not P.rows_equal(val, pr.oracle[d]):
                        vio = Violation("STORED_INVALID", f"data left in storage as valid differs from the correct "
                                                          f"result ({f['kind'] if f else 'no fault'})",
                                        f"{d}: {P.describe_diff(val, pr.oracle[d]) if val.dtype == pr.oracle[d].dtype else val.dtype}")
                        break
                else:
                    vio = Violation("STORED_INVALID", f"data reported as stored cannot be loaded ({state}; "
                                                      f"{f['kind'] if f else 'no fault'})", f"{d}: {val}")
                    break
    r = base_result(pr, w, vio, inconclusive, strategy=strategy,
                    extra_probes={"fault_hit": int(hit), f"byz_{f['kind'] if f else 'none'}": 1,
                                  f"byz_variant_{(f or {}).get('variant', 'plain')}": 1,
                                  "single_thread_runs": int(w["cfg"]["processor"] == "single_thread")})
    if f:
        r["faults"] = {f"byzantine_{f['kind']}": int(hit)}
    r["sample"] = {"target": target, "cfg": w["cfg"], "fault": f, "stored": sorted(w["stored"]),
                   "nodes": [{k: v for k, v in n.items() if k != "rows"} for n in spec["nodes"]],
                   "outcome": res.get("outcome"),
                   "exception": sig_of_exception(res["exc"]) if res.get("exc") is not None else None,
                   "steps": r["stats"]["steps"]}
    return r


def run_one(seed, tier, replay=None, lenient=False):
    if replay is not None:
        return execute(replay["workload"], seed, strategy=replay.get("strategy", "random"),
                       forced=replay["schedule"], strict=not lenient)
    w = gen(seed, tier)
    spec = S.swarm_strategy_spec(rng_for(seed, "strategy"))
    return execute(w, seed, strategy=spec)


def warm():
    for s in range(3):
        run_one(s, "quick")
