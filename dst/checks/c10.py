"""C10 - time-range, row and column selections commute with chunking and storage.

Stored layouts on SimFS (each data type in its own chunking: original or re-cut), both
processors; requests with time_range / seconds_range / time_within, fully_contained /
touching, selection strings / lists / callables, keep / drop columns, single and several
same-kind targets.  Oracle: the same predicate and projection applied with plain numpy to
the whole-run oracle rows; a range overlapping no chunk must raise; storage must be
byte-identical afterwards.  Endpoints are drawn from row and chunk edges +-1 and beyond
the run.  (Schedule dimension secondary; the request runs through loaders, mailboxes /
post office and the merge-only alignment.)
"""
import numpy as np

from .. import gen as G
from .. import plugins as P
from .. import sched as S
from ..core import Violation, rng_for
from ..pipeline import DATA_DIR, PipelineRun, base_result, common_verdict, prestore, sig_of_exception
from . import c01

PROPERTY = "C10"
LEVEL = "exploration"
QUICK_RUNS = 20000
THOROUGH_RUNS = 200_000
QUICK_BUDGET_S = 100
BATCH = 40
SMOKE_RUNS = 8
DETERMINISM_RUNS = 40
COMPONENTS = dict(c01.COMPONENTS)


def gen(seed, tier):
    r = rng_for(seed, "workload")
    rows = G.gen_rows(r, r.randint(0, 12), disjoint=r.random() < 0.6, long_rows=r.random() < 0.15,
                      t0=G.EPOCH_NS if r.random() < 0.3 else 0)
    start, end = G.run_span([rows], r)
    nodes = [{"name": "sa", "kind": "source", "rows": rows, "bounds": G.gen_bounds(r, rows, start, end, max_chunks=6)},
             {"name": "m0", "kind": "rowmap", "dep": "sa", "a": 3, "b": 1},
             {"name": "f0", "kind": "filter", "dep": "sa", "m": 2, "r": r.randrange(2)}]
    for n in nodes:
        n["opts"] = {"save_when": "ALWAYS", "rechunk_on_save": False}
    spec = {"run_id": "0", "nodes": nodes}
    orc = P.oracle(spec)
    layouts = {}
    for d in ("sa", "m0", "f0"):
        rr = [[int(a), int(b), 0] for a, b in zip(orc[d]["time"], orc[d]["endtime"])]
        layouts[d] = nodes[0]["bounds"] if (d == "sa" or r.random() < 0.3) else G.gen_bounds(r, rr, start, end, max_chunks=6)
    targets = r.choice([["sa"], ["m0"], ["f0"], ["sa", "m0"], ["m0", "sa"]])
    # candidate endpoints
    cand = {start, end, start - 5, end + 5, max(0, start - 1), end + 1}
    for t, e, _ in rows:
        cand.update({t, e, t - 1, t + 1, e - 1, e + 1})
    for d in targets:
        for b in layouts[d]:
            cand.update({b, b - 1, b + 1})
    cand = sorted(c for c in cand if c >= 0)
    rk = r.choice(["none", "time_range", "time_range", "time_range", "seconds_range", "time_within"])
    req = {"range_kind": rk}
    if rk in ("time_range", "seconds_range"):
        a, b = sorted(r.sample(cand, 2)) if len(cand) >= 2 else (cand[0], cand[0] + 1)
        if r.random() < 0.05:
            b = a
        req["range"] = [a, b]
    elif rk == "time_within":
        src = orc[targets[0]]
        if len(src):
            i = r.randrange(len(src))
            req["within"] = [int(src["time"][i]), int(src["endtime"][i])]
        else:
            req["range_kind"] = "none"
    req["time_selection"] = r.choice(["fully_contained", "fully_contained", "touching"])
    vf = f"v_{targets[0]}"
    sel = r.choice([None, None, "str", "list", "callable"])
    K = r.randint(0, 60)
    T = r.choice(cand)
    req["selection"] = None if sel is None else {"kind": sel, "field": vf, "K": K, "T": T}
    fields = ["time", "endtime"] + [f"v_{d}" for d in targets]
    col = r.choice([None, None, "keep", "drop"])
    if col:
        k = r.randint(1, len(fields) - (1 if col == "drop" else 0))
        req[col] = sorted(r.sample(fields, k))
    cfg = {"processor": r.choice(["threaded_mailbox", "single_thread"]), "max_workers": r.choice([1, 1, 2]),
           "allow_lazy": r.random() < 0.5, "allow_rechunk": True, "max_messages": 10_000}
    if cfg["processor"] == "single_thread":
        cfg["max_workers"] = 1
    return {"spec": spec, "target": targets[0], "targets": targets, "layouts": layouts, "req": req, "cfg": cfg,
            "stored": {}, "fs_order": r.choice([0, 1, 2]), "est_steps": 400}


def shrink(w):
    req = w["req"]
    if req.get("selection"):
        yield dict(w, req=dict(req, selection=None))
    if req.get("keep") or req.get("drop"):
        yield dict(w, req={k: v for k, v in req.items() if k not in ("keep", "drop")})
    if len(w["targets"]) > 1:
        yield dict(w, targets=w["targets"][:1], target=w["targets"][0],
                   req={k: v for k, v in req.items() if k not in ("keep", "drop", "selection")})
    b = w["spec"]["nodes"][0]["bounds"]
    for d in w["layouts"]:
        if w["layouts"][d] != [b[0], b[-1]]:
            yield dict(w, layouts=dict(w["layouts"], **{d: [b[0], b[-1]]}))


def run_start_floor(w):
    return (w["spec"]["nodes"][0]["bounds"][0] // 10 ** 9) * 10 ** 9


def expected(w, orc):
    targets, req = w["targets"], w["req"]
    base = orc[targets[0]]
    cols = {"time": base["time"], "endtime": base["endtime"]}
    for d in targets:
        cols[f"v_{d}"] = orc[d][f"v_{d}"]
    n = len(base)
    mask = np.ones(n, dtype=bool)
    tr = None
    if req["range_kind"] == "time_range":
        tr = tuple(req["range"])
    elif req["range_kind"] == "seconds_range":
        # seconds since the run start (floored to whole seconds), converted back the documented way:
        # integer run start + int(1e9 * seconds)
        t0 = run_start_floor(w)
        tr = (t0 + int(1e9 * ((req["range"][0] - t0) / 1e9)), t0 + int(1e9 * ((req["range"][1] - t0) / 1e9)))
    elif req["range_kind"] == "time_within":
        tr = tuple(req["within"])
    if tr is not None:
        if req["time_selection"] == "fully_contained":
            mask &= (cols["time"] >= tr[0]) & (cols["endtime"] <= tr[1])
        else:
            mask &= (cols["endtime"] > tr[0]) & (cols["time"] < tr[1])
    s = req.get("selection")
    if s:
        if s["kind"] in ("str", "callable"):
            mask &= cols[s["field"]] > s["K"]
        else:
            mask &= (cols[s["field"]] > s["K"]) & (cols["time"] < s["T"])
    names = list(cols)
    if req.get("keep"):
        names = [c for c in names if c in req["keep"]]
    if req.get("drop"):
        names = [c for c in names if c not in req["drop"]]
    return {c: cols[c][mask] for c in names}, tr


def execute(w, seed, strategy="random", forced=None, strict=False):
    pr = PipelineRun(w, seed, strategy=strategy, forced=forced, strict=strict)
    req = w["req"]
    res = {}

    def body():
        pr.build()
        ctx = pr.context()
        for d, bounds in sorted(w["layouts"].items()):
            prestore(ctx, pr.run_id, d, pr.oracle[d], bounds)
        res["digest"] = pr.fs.digest(DATA_DIR)
        pr.install_invariants()
        kw = {"time_selection": req["time_selection"]}
        if req["range_kind"] == "time_range":
            kw["time_range"] = tuple(req["range"])
        elif req["range_kind"] == "seconds_range":
            t0 = run_start_floor(w)
            kw["seconds_range"] = ((req["range"][0] - t0) / 1e9, (req["range"][1] - t0) / 1e9)
        elif req["range_kind"] == "time_within":
            tw = np.zeros(1, dtype=[("time", np.int64), ("endtime", np.int64)])
            tw["time"], tw["endtime"] = req["within"]
            kw["time_within"] = tw[0]
        s = req.get("selection")
        if s:
            if s["kind"] == "str":
                kw["selection"] = f"{s['field']} > {s['K']}"
            elif s["kind"] == "list":
                kw["selection"] = [f"{s['field']} > {s['K']}", f"time < {s['T']}"]
            else:
                fld, K = s["field"], s["K"]
                kw["selection"] = lambda x: x[fld] > K
        if req.get("keep"):
            kw["keep_columns"] = tuple(req["keep"])
        if req.get("drop"):
            kw["drop_columns"] = tuple(req["drop"])
        targets = w["targets"] if len(w["targets"]) > 1 else w["targets"][0]
        try:
            res["rows"] = ctx.get_array(pr.run_id, targets, processor=w["cfg"]["processor"],
                                        max_workers=w["cfg"]["max_workers"], progress_bar=False, **kw)
            res["outcome"] = "returned"
        except S.SimAbort:
            raise
        except Exception as e:
            res["outcome"] = "raised"
            res["exc"] = e
        res["alive"] = [t.name for t in pr.R.sim.live_threads()]
        res["digest_after"] = pr.fs.digest(DATA_DIR)
        return True

    with pr.R:
        out = pr.R.main(body)
    vio, inconclusive = common_verdict(pr, out)
    exp = tr = None
    if vio is None and not inconclusive:
        if out[0] == "exc":
            vio = Violation("EXC", f"harness phase: {sig_of_exception(out[1])}", repr(out[1])[:600])
        else:
            if res.get("exc") is not None and isinstance(res["exc"], S.HarnessError):
                raise res["exc"]
            exp, tr = expected(w, pr.oracle)
            s, e = P.run_range(w["spec"])
            empty_range = tr is not None and tr[0] == tr[1]
            no_chunk = tr is not None and (tr[1] <= s or tr[0] >= e)
            if res["digest_after"] != res["digest"]:
                vio = Violation("STORAGE_CHANGED", "a partial / selecting request changed the storage", "")
            elif empty_range:
                pass      # whether an empty range 'overlaps a chunk' is not fixed by the statement
            elif no_chunk:
                if res["outcome"] != "raised":
                    vio = Violation("NO_ERROR", "a range overlapping no chunk did not raise an explicit error",
                                    f"range {tr} run {(s, e)} returned {len(res['rows'])} rows")
            elif res["outcome"] == "raised":
                kind = "multi-target" if len(w["targets"]) > 1 else "single-target"
                vio = Violation("EXC", f"valid {kind} request raised {sig_of_exception(res['exc'])}",
                                repr(res["exc"])[:600])
            else:
                got = res["rows"]
                if sorted(got.dtype.names) != sorted(exp):
                    vio = Violation("WRONG_COLUMNS", "returned columns differ from the requested projection",
                                    (got.dtype.names, list(exp)))
                else:
                    for c in exp:
                        if len(got) != len(exp[c]) or not np.array_equal(got[c], exp[c]):
                            vio = Violation("WRONG_ROWS", f"selection result differs from filter(full result) "
                                                          f"[{req['range_kind']}, {req['time_selection']}]",
                                            f"column {c}: got {got[c][:8].tolist()} expected {exp[c][:8].tolist()} "
                                            f"({len(got)} vs {len(exp[c])} rows), range {tr}")
                            break
            if vio is None and res["alive"]:
                vio = Violation("THREADS_ALIVE", "threads alive after the request", res["alive"])
    n_exp = len(next(iter(exp.values()))) if exp else 0
    r = base_result(pr, w, vio, inconclusive, strategy=strategy,
                    extra_probes={f"range_{req['range_kind']}": 1, f"sel_{req['time_selection']}": 1,
                                  "multi_target": int(len(w["targets"]) > 1),
                                  "errors_expected": int(tr is not None and tr[0] != tr[1] and
                                                         (tr[1] <= P.run_range(w['spec'])[0] or tr[0] >= P.run_range(w['spec'])[1])),
                                  "empty_results": int(exp is not None and n_exp == 0),
                                  "rows_selected": n_exp,
                                  "single_thread_runs": int(w["cfg"]["processor"] == "single_thread")})
    r["nontrivial"] = True
    r["sample"] = {"targets": w["targets"], "req": {k: v for k, v in req.items()}, "layouts": w["layouts"],
                   "cfg": w["cfg"], "n_rows": len(w["spec"]["nodes"][0]["rows"]), "outcome": res.get("outcome"),
                   "rows_expected": n_exp,
                   "exception": sig_of_exception(res["exc"]) if res.get("exc") is not None else None}
    return r


def run_one(seed, tier, replay=None, lenient=False):
    if replay is not None:
        return execute(replay["workload"], seed, strategy=replay.get("strategy", "random"),
                       forced=replay["schedule"], strict=not lenient)
    w = gen(seed, tier)
    spec = S.swarm_strategy_spec(rng_for(seed, "strategy"))
    return execute(w, seed, strategy=spec)


def warm():
    for s in range(4):
        run_one(s, "quick")
