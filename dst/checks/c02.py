"""C02 - stored data is reused only under an identical lineage (no stale reads).

A seeded HISTORY of operations runs against one SimFS directory:
  set_config (tracked / untracked / shared option) | register(variant: other default, version,
  class name, dependency, compressor) | new_context | make | get_array | get_array from a second
  live context with other settings on the same directory | restart (every Python object dropped,
  only SimFS survives) | fuzzy context (fuzzy_for / fuzzy_for_options): is_stored, get_array
Reference model: registry + config as plain data; lineage(d) = closure over dependencies of
(class name, version, tracked option values).  Oracles after every operation:
  1. rows of get_array == independent numpy evaluation under the current settings
  2. key_for of the live context == key_for of a brand-new context with the same settings
  3. keys are equal exactly when the reference lineages are equal (whole history, both contexts)
  4. fuzzy: is_stored true exactly when some stored directory's lineage equals the wanted one after
     dropping the named data types / options; nothing is written under fuzzy matching
  5. (sampled) the key table is identical when the history is re-executed in fresh interpreters
     with other PYTHONHASHSEEDs and permuted option insertion order
"""
import json
import os
import subprocess
import sys

import strax

from .. import gen as G
from .. import plugins as P
from .. import sched as S
from ..core import Violation, rng_for, jhash
from ..pipeline import DATA_DIR, PipelineRun, base_result, common_verdict, sig_of_exception
from ..simfs import ROOT
from . import c01

PROPERTY = "C02"
LEVEL = "exploration"
QUICK_RUNS = 3000
THOROUGH_RUNS = 100_000
QUICK_BUDGET_S = 100
BATCH = 25
SMOKE_RUNS = 5
DETERMINISM_RUNS = 30
COMPONENTS = dict(c01.COMPONENTS, real=c01.COMPONENTS["real"] + [
    "Context.register/set_config/new_context/key_for/is_stored, fixed plugin cache, lineage construction",
    "strax.deterministic_hash / hashablize", "DataKey", "DataDirectory._find incl. fuzzy matching"])
RULE = ("one evaluation = one seeded history of 3-25 operations with the oracles evaluated after every operation; "
        "non-trivial = the history contains at least one registration or tracked-option change and one make/get; "
        "distinct = different hash of the history")
TYPES = ["sa", "n0", "n1", "n2", "n3", "c1"]
RUN = "0"
# No two values that are equal under == but hash differently (1 / True / 1.0): exact matching goes by the
# lineage hash, fuzzy matching by ==, so such pairs are "the same" for one and "different" for the other.
OPT_VALUES = [0, 5, 7, -3, 2.5, "x", None, True, (1, 2), ("a", 3.0)]


def base_spec(r):
    rows = G.gen_rows(r, r.randint(1, 6), disjoint=True)
    s, e = G.run_span([rows], r)
    nodes = [
        {"name": "sa", "kind": "source", "rows": rows, "bounds": G.gen_bounds(r, rows, s, e, max_chunks=3)},
        {"name": "n0", "kind": "rowmap", "dep": "sa", "a": 2, "b": 1, "has_opt": True, "opt_default": 0},
        {"name": "n1", "kind": "rowmap", "dep": "n0", "a": 1, "b": 2, "has_opt": True, "opt_name": "u1",
         "opt_track": False, "opt_default": 0, "extra_opts": [{"name": "sh", "default": 0, "track": True}]},
        {"name": "n2", "kind": "filter", "dep": "n0", "m": 2, "r": 0,
         "extra_opts": [{"name": "sh", "default": 0, "track": True}]},
        {"name": "n3", "kind": "rowmap", "dep": "n1", "a": 3, "b": 0,
         "extra_opts": [{"name": "misc", "default": ("a", 3.0), "track": True}]},
        # c1: a CHILD plugin of n1's class (strax child_plugin): child options c_u1 (untracked, replaces u1) and
        # c_sh (tracked, replaces sh); its lineage holds the tracked child options and the parent's name + version
        {"name": "c1", "kind": "rowmap", "dep": "n0", "a": 1, "b": 5, "child_of": "n1"},
    ]
    for n in nodes:
        n["opts"] = {"save_when": "ALWAYS", "rechunk_on_save": False}
    return {"run_id": RUN, "nodes": nodes}


def gen(seed, tier):
    r = rng_for(seed, "workload")
    spec = base_spec(r)
    n_ops = r.randint(3, 25 if tier == "thorough" else 14)
    ops = []
    for _ in range(n_ops):
        k = r.choice(["set_config", "set_config", "register", "register", "new_context", "make", "get", "get",
                      "second_get", "restart", "fuzzy"])
        if k == "set_config":
            name = r.choice(["opt_n0", "opt_n0", "u1", "sh", "misc", "c_u1", "c_sh"])
            val = r.choice([0, 1, 5, 7, -3]) if name in ("opt_n0", "u1") else r.choice(OPT_VALUES)
            ops.append(["set_config", name, val])
        elif k == "register":
            d = r.choice(["n0", "n0", "n1", "n2", "n3"])
            change = r.choice(["default", "version", "class", "dep", "compressor"])
            if change == "default" and d != "n0":
                change = "version"
            if change == "dep" and d != "n1":
                change = "class"
            ops.append(["register", d, change])
        elif k in ("make", "get", "second_get"):
            ops.append([k, r.choice(TYPES[1:])])
        elif k == "fuzzy":
            if r.random() < 0.5:
                ops.append(["fuzzy", "fuzzy_for", r.choice(["n0", "n1"]), r.choice(["n1", "n2", "n3"])])
            else:
                ops.append(["fuzzy", "fuzzy_for_options", r.choice(["opt_n0", "sh"]), r.choice(["n1", "n2", "n3"])])
        else:
            ops.append([k])
    return {"spec": spec, "ops": ops, "target": "n3", "stored": {},
            "cfg": {"processor": r.choice(["single_thread", "single_thread", "threaded_mailbox"]), "max_workers": 1,
                    "allow_lazy": True, "allow_rechunk": True, "max_messages": 4},
            "stability": seed % (10 if tier == "thorough" else 40) == 0, "fs_order": 0, "est_steps": 1500}


def shrink(w):
    ops = w["ops"]
    n = len(ops)
    for size in (n // 2, n // 4, 1):
        if size < 1:
            continue
        for i in range(0, n, size):
            cand = ops[:i] + ops[i + size:]
            if cand and len(cand) < n:
                yield dict(w, ops=cand, stability=False)


# --------------------------------------------------------------------------
class Model:
    """Plain-data reference: which class variant provides each type, and the config."""

    def __init__(self, spec):
        self.spec = json.loads(json.dumps(spec))
        for n in self.spec["nodes"]:
            for eo in n.get("extra_opts", []):
                if isinstance(eo["default"], list):      # keep tuple-valued option defaults tuples
                    eo["default"] = tuple(eo["default"])
        self.config = {}
        self.counter = {}

    def copy(self):
        m = Model(self.spec)
        m.config = dict(self.config)
        m.counter = dict(self.counter)
        return m

    def node(self, d):
        return P.node_by_type(self.spec)[d]

    def apply_register(self, d, change):
        n = self.node(d)
        c = self.counter.get((d, change), 0) + 1
        self.counter[(d, change)] = c
        if change == "default":
            n["opt_default"] = [0, 5, 9][c % 3]
        elif change == "version":
            n["version"] = f"0.0.{c + 1}"
        elif change == "class":
            n["class_name"] = f"H_{d}" if c % 2 == 0 else f"H_{d}_alt"
        elif change == "dep":
            n["dep"] = "sa" if n["dep"] == "n0" else "n0"
        elif change == "compressor":
            n["opts"] = dict(n["opts"], compressor="zstd" if n["opts"].get("compressor", "blosc") == "blosc" else "blosc")

    def lineage(self, d):
        n = self.node(d)
        opts = {}
        if n.get("child_of"):
            # the parent's options that the child replaces are dropped; untracked child options are not tracked
            p = self.node(n["child_of"])
            opts["c_sh"] = self.config.get("c_sh", 0)
            opts[p.get("class_name") or f"H_{p['name']}"] = p.get("version", "0.0.1")
        if n.get("has_opt") and n.get("opt_track", True):
            name = n.get("opt_name", f"opt_{n['name']}")
            opts[name] = self.config.get(name, n.get("opt_default", 0))
        for eo in n.get("extra_opts", []):
            if eo.get("track", True):
                opts[eo["name"]] = self.config.get(eo["name"], eo["default"])
        lin = {d: [n.get("class_name") or f"H_{d}", n.get("version", "0.0.1"), opts]}
        for dep in P.deps_of(n):
            lin.update(self.lineage(dep))
        return lin

    def lineage_id(self, d):
        return json.dumps(self.lineage(d), sort_keys=True, default=repr)

    def oracle(self):
        return P.oracle(self.spec, self.config)


def make_child(cl, ordered):
    """Turn the stand-alone class built for c1 into a strax child plugin of n1's current class."""
    plain, parent = cl["c1"], cl["n1"]
    attrs = {k: v for k, v in plain.__dict__.items() if k not in ("__dict__", "__weakref__", "takes_config")}
    attrs["child_plugin"] = True
    child = type(plain.__name__, (parent,), attrs)
    child = strax.takes_config(
        strax.Option("c_u1", default=0, track=False, child_option=True, parent_option_name="u1"),
        strax.Option("c_sh", default=0, track=True, child_option=True, parent_option_name="sh"))(child)
    import dst.dyn as dyn
    setattr(dyn, plain.__name__, child)
    return dict(cl, c1=child), [child if c is plain else c for c in ordered]


def filtered(lin, fuzzy_for=(), fuzzy_for_options=()):
    return json.dumps({d: [v[0], v[1], {k: x for k, x in v[2].items() if k not in fuzzy_for_options}]
                       for d, v in lin.items() if d not in fuzzy_for}, sort_keys=True, default=repr)


def stored_dirs(fs):
    out = []
    if fs.isdir(DATA_DIR):
        for name in fs.listdir(DATA_DIR):
            p = name.split("-")
            if len(p) == 3 and not name.endswith("_temp"):
                out.append(name)
    return sorted(out)


def run_history(w, pr, res, keys_only=False, permute=False):
    """Execute the history against real strax; evaluate the oracles after every operation."""
    model = Model(w["spec"])
    keymap = {}      # key string -> reference lineage id
    linmap = {}      # reference lineage id -> key string
    build_n = [0]

    def classes_for(m):
        build_n[0] += 1
        cl, ordered = P.build_classes(m.spec, log=pr.log, prefix="H")
        if "c1" in cl:
            cl, ordered = make_child(cl, ordered)
        return cl, ordered

    def new_ctx(m, storage=None, extra=None):
        cl, ordered = classes_for(m)
        cfg = dict(reversed(list(m.config.items()))) if permute else dict(m.config)
        opts = {"timeout": 60, "saver_timeout": 60}
        opts.update(extra or {})
        st = storage if storage is not None else [strax.DataDirectory(DATA_DIR)]
        return strax.Context(storage=st, register=list(ordered), config=cfg, processors=P.PROCESSORS, **opts)

    def note_key(key, lid, who):
        if key in keymap and keymap[key] != lid:
            raise Violation("KEY_COLLISION", "two different lineages map to one storage key (a change that must "
                                             "alter the key did not)", f"{who}: {key}\n{keymap[key]}\n{lid}")
        if lid in linmap and linmap[lid] != key:
            raise Violation("KEY_UNSTABLE", "one lineage maps to two storage keys (a change that must not alter "
                                            "the key did)", f"{who}: {key} vs {linmap[lid]}\n{lid}")
        keymap[key] = lid
        linmap[lid] = key

    def check_keys(ctx, m, who):
        fresh = new_ctx(m, storage=[])
        table = {}
        for d in TYPES:
            if d not in P.node_by_type(m.spec):       # replay files written before c1 existed
                continue
            k_live = str(ctx.key_for(RUN, d))
            k_new = str(fresh.key_for(RUN, d))
            table[d] = k_live
            if k_live != k_new:
                raise Violation("STALE_KEY", f"live context and a brand-new context with the same settings disagree "
                                             f"on the storage key", f"{who} after {res['op']}: {d}: {k_live} vs {k_new}")
            note_key(k_live, m.lineage_id(d), who)
        return table

    def detuple(v):
        # replay files are JSON: option values that were tuples come back as lists
        return tuple(detuple(x) for x in v) if isinstance(v, list) else v

    ctx = new_ctx(model)
    second = None
    second_model = None
    res["tables"] = []
    res["n_checked_rows"] = 0
    for i, op in enumerate(w["ops"]):
        if op[0] == "set_config":
            op = [op[0], op[1], detuple(op[2])]
        res["op"] = f"#{i} {op}"
        kind = op[0]
        if kind == "set_config":
            ctx.set_config({op[1]: op[2]})
            model.config[op[1]] = op[2]
        elif kind == "register":
            model.apply_register(op[1], op[2])
            cl, _ = classes_for(model)
            ctx.register(cl[op[1]])
            if op[1] == "n1" and "c1" in cl:
                ctx.register(cl["c1"])       # redefining the parent class redefines its child
        elif kind == "new_context":
            ctx = ctx.new_context()
        elif kind == "restart":
            ctx = new_ctx(model)
        elif kind in ("make", "get") and not keys_only:
            if kind == "make":
                ctx.make(RUN, op[1], processor=w["cfg"]["processor"])
            got = ctx.get_array(RUN, op[1], processor=w["cfg"]["processor"], progress_bar=False)
            exp = model.oracle()[op[1]]
            res["n_checked_rows"] += 1
            if not P.rows_equal(got, exp):
                raise Violation("STALE_DATA", f"{kind} returned rows that a brand-new context with the same settings "
                                              f"would not compute", f"after {res['op']}: {op[1]}: {P.describe_diff(got, exp)}")
        elif kind == "second_get" and not keys_only:
            if second is None:
                second_model = model.copy()
                second_model.config.update({"opt_n0": 7, "sh": 11})
                second = new_ctx(second_model)
            got = second.get_array(RUN, op[1], processor=w["cfg"]["processor"], progress_bar=False)
            exp = second_model.oracle()[op[1]]
            res["n_checked_rows"] += 1
            if not P.rows_equal(got, exp):
                raise Violation("STALE_DATA", "second live context on the same directory returned rows of other "
                                              "settings", f"after {res['op']}: {op[1]}: {P.describe_diff(got, exp)}")
            check_keys(second, second_model, "second context")
        elif kind == "fuzzy" and not keys_only:
            ff = (op[2],) if op[1] == "fuzzy_for" else ()
            fo = (op[2],) if op[1] == "fuzzy_for_options" else ()
            fctx = ctx.new_context(fuzzy_for=ff, fuzzy_for_options=fo)
            before = stored_dirs(pr.fs)
            want = filtered(model.lineage(op[3]), ff, fo)
            exp_stored = False
            for name in before:
                if name.split("-")[1] != op[3]:
                    continue
                lid = keymap.get(name)
                if lid is None:
                    continue
                if filtered(json.loads(lid), ff, fo) == want:
                    exp_stored = True
            got_stored = bool(fctx.is_stored(RUN, op[3]))
            if got_stored != exp_stored:
                raise Violation("FUZZY_MISMATCH", ("fuzzy matching accepted stored data whose lineage differs outside "
                                                   "the named parts" if got_stored else
                                                   "fuzzy matching did not accept stored data that differs only in the "
                                                   "named parts"), f"after {res['op']}: stored {before}")
            try:
                fctx.get_array(RUN, op[3], processor=w["cfg"]["processor"], progress_bar=False)
            except strax.DataNotAvailable:
                pass
            after = stored_dirs(pr.fs)
            if after != before:
                raise Violation("FUZZY_WROTE", "data computed under fuzzy matching was written to storage",
                                f"after {res['op']}: new {sorted(set(after) - set(before))}")
        res["tables"].append(check_keys(ctx, model, "live context"))
    res["final_table"] = res["tables"][-1] if res["tables"] else {}
    return model


def keys_for_history(w, permute=True):
    """Used by the fresh-interpreter stability check: key table after the history (no data)."""
    from ..core import SimRun
    from ..simfs import SimFS
    pr = PipelineRun(w, 0, strategy="random")
    res = {}
    with pr.R:
        out = pr.R.main(lambda: run_history(w, pr, res, keys_only=True, permute=permute))
    if out[0] != "ok":
        return {"error": repr(out)}
    return res["tables"]


def stability_check(w, tables):
    """Re-execute the history (registrations and settings only) in fresh interpreters."""
    import tempfile
    verif = os.path.dirname(os.path.dirname(os.path.dirname(os.path.abspath(__file__))))
    with tempfile.NamedTemporaryFile("w", suffix=".json", delete=False) as f:
        json.dump(w, f)
        path = f.name
    try:
        for hs in ("1", "12345"):
            code = ("import sys, json; sys.path.insert(0, %r); "
                    "r = __import__('os').environ.get('DST_STRAX_ROOT'); "
                    "r and sys.path.insert(0, r); "
                    "from dst.checks import c02; "
                    "print('TABLES ' + json.dumps(c02.keys_for_history(json.load(open(%r)))))" % (verif, path))
            p = subprocess.run([sys.executable, "-c", code], capture_output=True, text=True, timeout=600,
                               env=dict(os.environ, PYTHONHASHSEED=hs))
            line = [l for l in p.stdout.splitlines() if l.startswith("TABLES ")]
            if not line:
                raise S.HarnessError(f"stability subprocess failed: {p.stderr[-500:]}")
            other = json.loads(line[0][7:])
            if other != tables:
                for i, (a, b) in enumerate(zip(tables, other)):
                    if a != b:
                        return Violation("KEYS_NOT_PORTABLE", "storage keys differ in another process (hash seed / "
                                                              "option insertion order)",
                                         f"PYTHONHASHSEED={hs} after op #{i} {w['ops'][i]}: {a} vs {b}")
                return Violation("KEYS_NOT_PORTABLE", "key tables differ in length", "")
    finally:
        os.unlink(path)
    return None


def execute(w, seed, strategy="random", forced=None, strict=False):
    pr = PipelineRun(w, seed, strategy=strategy, forced=forced, strict=strict)
    res = {}

    def body():
        return run_history(w, pr, res)

    with pr.R:
        out = pr.R.main(body)
    vio, inconclusive = common_verdict(pr, out)
    if vio is None and not inconclusive and out[0] == "exc":
        e = out[1]
        if isinstance(e, Violation):
            vio = e
        else:
            vio = Violation("EXC", f"{res.get('op', '?').split(' ', 1)[-1].split(',')[0]}: {sig_of_exception(e)}",
                            f"after {res.get('op')}: {e!r}"[:800])
    if vio is None and not inconclusive and w.get("stability") and res.get("tables"):
        vio = stability_check(w, res["tables"])
    kinds = [op[0] for op in w["ops"]]
    r = base_result(pr, w, vio, inconclusive, strategy=strategy,
                    extra_probes={"ops": len(w["ops"]), "rows_checked": res.get("n_checked_rows", 0),
                                  "key_tables_checked": len(res.get("tables", [])),
                                  "stability_runs": int(bool(w.get("stability"))),
                                  **{f"op_{k}": kinds.count(k) for k in set(kinds)}})
    r["nontrivial"] = any(k in ("register", "set_config") for k in kinds) and any(k in ("make", "get") for k in kinds)
    r["trace_hash"] = int(jhash([w["ops"], w["spec"]["nodes"][0]["rows"]]), 16)
    r["digest"] = res.get("final_table")
    r["sample"] = {"ops": w["ops"], "processor": w["cfg"]["processor"], "final_keys": res.get("final_table"),
                   "stopped_at": res.get("op") if vio else None}
    return r


def run_one(seed, tier, replay=None, lenient=False):
    if replay is not None:
        return execute(replay["workload"], seed, strategy=replay.get("strategy", "random"),
                       forced=replay["schedule"], strict=not lenient)
    w = gen(seed, tier)
    return execute(w, seed, strategy="random")


def warm():
    for s in range(2):
        run_one(s + 1, "quick")
