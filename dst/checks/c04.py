"""C04 - a crash or I/O failure never leaves wrong data visible as valid.

Fault enumeration: for one seeded workload (`make` of a generated graph on SimFS, on top of a
prior directory state) the fault-free execution is recorded; then for EVERY mutating file-system
operation k of that execution and every applicable fault kind
    eio (OSError at k) | crash_before(k) | crash_after(k) | crash_torn(k, writes only)
the same seed is re-executed with that single fault (determinism makes operation k the same
operation up to the fault).  After each faulty execution only the SimFS survives; a fresh
Context then checks: is_stored never raises; everything reported stored loads completely and
equals the oracle; the identical make succeeds without manual cleanup; afterwards every data
type can be obtained correctly; an injected exception on a saver's operation is never
reported as a normal return.
"""
import numpy as np

from .. import gen as G
from .. import plugins as P
from .. import sched as S
from ..core import Violation, rng_for, ihash, jhash, classify_abort
from ..pipeline import DATA_DIR, PipelineRun, prestore, sig_of_exception, root_cause
from ..simfs import Fault, SimFS, MUTATING

PROPERTY = "C04"
LEVEL = "fault_enumeration"
QUICK_RUNS = 400
THOROUGH_RUNS = 20_000
QUICK_BUDGET_S = 110
THOROUGH_BUDGET_S = 1700
BATCH = 2
SMOKE_RUNS = 1
DETERMINISM_RUNS = 4
COMPONENTS = {
    "real": ["strax.Context.make/is_stored/get_array/get_components", "both processors", "Mailbox",
             "Saver/FileSaver (temp dir, per-chunk metadata, renames, rmtree of old data)",
             "strax.io save_file/load_file", "StorageFrontend.find / broken-data checks", "Rechunker"],
    "simulated": ["file system with per-operation faults and process death (frozen SimFS, all threads unwound)",
                  "thread scheduling", "thread pool for saving", "clock"],
    "stub": [],
}
RULE = ("one evaluation = one workload: a fault-free reference execution plus one faulty execution per "
        "(mutating file-system operation, fault kind), each followed by restart, reload, retry and re-check "
        "phases; 'executions' counts the faulty executions; non-trivial = the fault fired inside an operation "
        "of the make under test; distinct = different (workload, operation index, fault kind)")
ASSUMPTIONS = ["crash model is process death: completed operations are durable (strax never syncs, so a "
               "page-cache-loss model is out of scope)",
               "open(..., 'w') truncates at once, content reaches the file when it is closed; rmtree is not atomic; "
               "rename is atomic"]
FAULT_KINDS = ("eio", "crash_before", "crash_after", "crash_torn")


def gen(seed, tier):
    r = rng_for(seed, "workload")
    spec = G.gen_graph(r, n_derived=(1, 3), n_sources=(1, 1), n_rows=(1, 6), max_chunks=3,
                       kinds=("rowmap", "filter", "multi", "merge2", "rowmap", "cut"))
    derived = [d for n in spec["nodes"] if n["kind"] != "source" for d in P.names_of(n)]
    target = r.choice(derived)
    processor = r.choice(["threaded_mailbox", "threaded_mailbox", "single_thread"])
    workers = r.choice([1, 1, 2]) if processor == "threaded_mailbox" else 1
    cfg = {"processor": processor, "max_workers": workers, "allow_lazy": r.random() < 0.5,
           "allow_rechunk": r.random() < 0.6, "max_messages": 4}
    for n in spec["nodes"]:
        if "names" in n:
            n["opts"] = {"save_when": {d: r.choice(["ALWAYS", "ALWAYS", "TARGET", "NEVER"]) for d in n["names"]},
                         "rechunk_on_save": {d: r.random() < 0.5 for d in n["names"]}}
        else:
            n["opts"] = {"save_when": r.choice(["ALWAYS", "ALWAYS", "ALWAYS", "TARGET", "NEVER"]),
                         "rechunk_on_save": r.random() < 0.5}
        n["opts"]["target_mb"] = r.choice([200, 2 * 24 / 1e6])
        n["opts"]["compressor"] = r.choice(["blosc", "blosc", "zstd", "lz4"])
        if workers > 1 and n["kind"] in ("rowmap", "filter", "multi", "merge2") and r.random() < 0.5:
            n["opts"]["parallel"] = True
    if processor == "threaded_mailbox" and r.random() < 0.25:
        # multiprocessing mode: plugins and their savers are inlined into a ParallelSourcePlugin and run behind the
        # process-pool stub (pickle boundary); the inlined, 'forked' savers write one metadata_*.json per chunk
        cfg.update(allow_multiprocess=True, max_workers=2, allow_lazy=False)
        for n in spec["nodes"]:
            if n["kind"] in ("source", "rowmap", "filter", "multi") and r.random() < 0.8:
                n["opts"]["parallel"] = "process"
                n["opts"]["rechunk_on_save"] = ({d: False for d in n["names"]} if "names" in n else False)
    need = sorted(G.needed_for(spec, target))
    prior = r.choice(["empty", "empty", "partial", "broken", "crashed"])
    w = {"spec": spec, "target": target, "cfg": cfg, "stored": {}, "prior": prior,
         "prior_arg": r.random(), "prior_target": r.choice(need), "fs_order": r.choice([0, 1, 3]),
         "est_steps": 600, "strategy": S.swarm_strategy_spec(rng_for(seed, "strategy"))}
    return w


def all_types(spec):
    return [d for n in spec["nodes"] for d in P.names_of(n)]


# --------------------------------------------------------------------------
def run_phase(w, fs, seed, phase, fault=None, plugin_fault=None, target=None):
    """One simulated process: fresh Context on the surviving SimFS, one make().  Returns dict."""
    fs.thaw()
    fs.ops = []
    fs.fired = []
    fs.n_mut = 0
    if fault is not None:
        fs.faults = [fault]
    pr = PipelineRun(w, seed, strategy=w["strategy"], fs=fs, fault=plugin_fault)
    res = {}

    def body():
        pr.build()
        ctx = pr.context()
        pr.install_invariants()
        ctx.make(pr.run_id, target or w["target"], processor=w["cfg"]["processor"],
                 max_workers=w["cfg"]["max_workers"])
        return True

    with pr.R:
        out = pr.R.main(body)
    sim = pr.R.sim
    res["out"] = out
    res["abort"] = sim.aborting
    res["ops"] = list(fs.ops)
    res["fired"] = list(fs.fired)
    res["steps"] = sim.steps
    res["decisions"] = sim.decisions
    res["threads"] = len(sim.threads)
    res["hangs"] = list(sim.hangs)
    res["lost"] = list(sim.lost_wakeups)
    res["sim_time"] = sim.now - S.EPOCH
    res["trace"] = list(sim.trace)
    if sim.aborting == "diverged":
        raise S.ReplayDiverged(str(sim.abort_detail))
    if out[0] == "exc" and isinstance(root_cause(out[1]), S.HarnessError):
        raise root_cause(out[1])
    return res


def check_storage(w, fs, seed, oracle, tag):
    """Fresh context, creation forbidden: is_stored is a bool; stored => loads completely and equals oracle."""
    fs.thaw()
    pr = PipelineRun(dict(w, cfg=dict(w["cfg"], processor="single_thread", max_workers=1)), seed + 1, fs=fs)
    box = {}

    def body():
        pr.build()
        ctx = pr.context(extra={"forbid_creation_of": "*"})
        state = {}
        for d in all_types(w["spec"]):
            try:
                st = ctx.is_stored(pr.run_id, d)
            except Exception as e:
                state[d] = ("is_stored_raised", e)
                continue
            if not isinstance(st, (bool, np.bool_)):
                state[d] = ("is_stored_not_bool", st)
                continue
            if not st:
                state[d] = ("absent", None)
                continue
            try:
                arr = ctx.get_array(pr.run_id, d, processor="single_thread", progress_bar=False)
                state[d] = ("loaded", arr)
            except Exception as e:
                state[d] = ("load_raised", e)
        box["state"] = state
        return True

    with pr.R:
        out = pr.R.main(body)
    if out[0] != "ok":
        if out[0] == "exc" and isinstance(out[1], S.HarnessError):
            raise out[1]
        return Violation("CHECK_FAILED", f"{tag}: storage inspection itself failed: {out}", ""), {}
    for d, (st, val) in sorted(box["state"].items()):
        if st == "is_stored_raised":
            return Violation("IS_STORED_RAISES", f"{tag}: is_stored raises instead of reporting unavailable: "
                                                 f"{sig_of_exception(val)}", f"{d}: {val!r}"[:600]), box["state"]
        if st == "load_raised":
            return Violation("STORED_BUT_UNLOADABLE", f"{tag}: data reported as stored fails to load: "
                                                      f"{sig_of_exception(val)}", f"{d}: {val!r}"[:600]), box["state"]
        if st == "loaded" and not P.rows_equal(val, oracle[d]):
            return Violation("STORED_BUT_WRONG", f"{tag}: data reported as stored differs from the correct result",
                             f"{d}: {P.describe_diff(val, oracle[d])}"), box["state"]
    return None, box["state"]


def retry_and_recheck(w, fs, seed, oracle):
    """The identical make without faults, then every type obtainable and correct, then storage re-check."""
    r = run_phase(w, fs, seed + 2, "retry")
    if r["out"][0] != "ok":
        e = r["out"][1] if r["out"][0] == "exc" else r["out"]
        return Violation("RETRY_FAILS", f"identical make after the fault fails without manual cleanup: "
                                        f"{sig_of_exception(e) if isinstance(e, Exception) else e}", repr(e)[:600])
    if r["hangs"] or r["lost"]:
        return Violation("HANG", "retry made progress only by timeout", (r["hangs"] or r["lost"])[0])
    fs.thaw()
    pr = PipelineRun(dict(w, cfg=dict(w["cfg"], processor="single_thread", max_workers=1)), seed + 3, fs=fs)
    box = {}

    def body():
        pr.build()
        ctx = pr.context()
        got = {}
        for d in all_types(w["spec"]):
            try:
                got[d] = ctx.get_array(pr.run_id, d, processor="single_thread", progress_bar=False)
            except Exception as e:
                got[d] = e
        box["got"] = got
        return True

    with pr.R:
        out = pr.R.main(body)
    if out[0] != "ok":
        return Violation("CHECK_FAILED", f"after retry: {out}", "")
    for d, val in sorted(box["got"].items()):
        if isinstance(val, Exception):
            if isinstance(val, S.HarnessError):
                raise val
            return Violation("AFTER_RETRY_UNAVAILABLE", f"after the retry a data type cannot be obtained: "
                                                        f"{sig_of_exception(val)}", f"{d}: {val!r}"[:600])
        if not P.rows_equal(val, oracle[d]):
            return Violation("AFTER_RETRY_WRONG", "after the retry a data type differs from the correct result",
                             f"{d}: {P.describe_diff(val, oracle[d])}")
    v, _ = check_storage(w, fs, seed + 4, oracle, "after retry")
    return v


def prepare_prior(w, fs, seed):
    """Bring the data directory into its prior state by earlier (possibly failing) simulated processes."""
    prior = w["prior"]
    if prior == "empty":
        return
    if prior == "partial":
        run_phase(w, fs, seed + 10, "prior", target=w["prior_target"])
    elif prior == "broken":
        # an earlier make that died of an exception in the target's plugin: savers record the exception
        nb = P.node_by_type(w["spec"])
        n = nb[w["target"]]
        orc = P.oracle(w["spec"])
        times = sorted({int(t) for dep in P.deps_of(n) for t in orc[dep]["time"]})
        if times:
            pf = {"node": P.names_of(n)[0], "row_time": times[-1], "kind": "raise"}
            run_phase(w, fs, seed + 10, "prior", plugin_fault=pf)
        else:
            run_phase(w, fs, seed + 10, "prior", target=w["prior_target"])
    elif prior == "crashed":
        ref = run_phase(w, SimFS(order_salt=w["fs_order"]), seed + 10, "probe")
        muts = [op[0] for op in ref["ops"] if op[2] in MUTATING]
        if muts:
            k = muts[int(w["prior_arg"] * len(muts)) % len(muts)]
            run_phase(w, fs, seed + 10, "prior", fault=Fault("crash_after", at=k))
    fs.thaw()


def applicable(kind, op_kind):
    if kind == "crash_torn":
        return op_kind == "write"
    return True


def one_faulty(w, seed, base_state, fkind, k, oracle, op):
    fs = SimFS(order_salt=w["fs_order"])
    fs.restore_state(base_state)
    fs.n_tmp = 0
    arg = None
    if fkind == "crash_torn":
        arg = (op[4] or 0) // 2 if isinstance(op[4], int) else None
    r = run_phase(w, fs, seed, "make", fault=Fault(fkind, at=k, arg=arg))
    fired = [f for f in r["fired"]]
    info = {"fired": bool(fired), "outcome": r["out"][0] if not r["abort"] else f"abort:{r['abort']}"}
    if not fired:
        # the schedule diverged before k?  determinism says it cannot
        return Violation("NOT_FIRED", "fault at a recorded operation did not fire (determinism broken)",
                         f"{fkind}@{k}"), info, r
    vio = None
    path = fired[0][3]
    if fkind == "eio":
        if r["hangs"] or r["lost"]:
            vio = Violation("HANG", f"after an I/O error at {op[2]} the pipeline made progress only by timeout",
                            (r["hangs"] or r["lost"])[0])
        elif r["out"][0] == "ok" and path.startswith(DATA_DIR + "/") and path != DATA_DIR:
            vio = Violation("SILENT_FAILURE", f"I/O error at {op[2]} of a saver's file was reported to the caller "
                                              f"as success", f"op {op}")
    if vio is None:
        vio, _ = check_storage(w, fs, seed, oracle, f"after {fkind} at {op[2]}")
    if vio is None:
        v = retry_and_recheck(w, fs, seed, oracle)
        if v is not None:
            vio = Violation(v.cls, f"after {fkind} at {op[2]}: {v.signature}", v.detail)
    return vio, info, r


def execute_workload(w, seed, only=None):
    oracle = P.oracle(w["spec"])
    fs0 = SimFS(order_salt=w["fs_order"])
    prepare_prior(w, fs0, seed)
    base = fs0.clone_state()
    fs = SimFS(order_salt=w["fs_order"])
    fs.restore_state(base)
    ref = run_phase(w, fs, seed, "make")
    out = {"violations": [], "n_exec": 0, "traces": set(), "faults": {}, "probes": {}, "ref": ref}
    if ref["out"][0] != "ok" or ref["hangs"] or ref["lost"]:
        e = ref["out"][1] if ref["out"][0] == "exc" else (ref["hangs"] or ref["lost"] or ref["out"])
        # a fault-free make on top of a legal prior state must work (this is the 'retry' clause itself)
        v = Violation("RETRY_FAILS", f"fault-free make on prior state '{w['prior']}' fails: "
                                     f"{sig_of_exception(e) if isinstance(e, Exception) else 'hang'}", repr(e)[:600])
        out["violations"].append((v, {"kind": "none", "at": -1}))
        return out
    v, _ = check_storage(w, fs, seed, oracle, "fault-free")
    if v is not None:
        out["violations"].append((v, {"kind": "none", "at": -1}))
        return out
    ops = [op for op in ref["ops"] if op[2] in MUTATING]
    out["probes"]["ops_per_make"] = len(ops)
    for op in ops:
        for fk in FAULT_KINDS:
            if not applicable(fk, op[2]):
                continue
            if only is not None and (fk, op[0]) != only:
                continue
            vio, info, r = one_faulty(w, seed, base, fk, op[0], oracle, op)
            out["n_exec"] += 1
            out["traces"].add(ihash(jhash(w), op[0], fk))
            out["faults"][fk] = out["faults"].get(fk, 0) + 1
            key = f"op_{op[2]}"
            out["probes"][key] = out["probes"].get(key, 0) + 1
            if "_temp/" in op[3] and op[2] == "rename":
                out["probes"]["chunk_renames_hit"] = out["probes"].get("chunk_renames_hit", 0) + 1
            if op[2] == "rename" and "_temp/" not in op[3] and op[3].endswith("_temp"):
                out["probes"]["final_dir_renames_hit"] = out["probes"].get("final_dir_renames_hit", 0) + 1
            if op[2] in ("remove", "rmdir"):
                out["probes"]["crash_in_rmtree"] = out["probes"].get("crash_in_rmtree", 0) + 1
            if fk == "crash_torn" and op[3].endswith("metadata.json"):
                out["probes"]["torn_metadata"] = out["probes"].get("torn_metadata", 0) + 1
            if fk == "eio" and info["outcome"] == "ok":
                out["probes"]["eio_returned_normally"] = out["probes"].get("eio_returned_normally", 0) + 1
            if vio is not None:
                out["violations"].append((vio, {"kind": fk, "at": op[0], "op": list(op)}))
    return out


def run_one(seed, tier, replay=None, lenient=False):
    if replay is not None:
        w = replay["workload"]
        f = replay.get("fault") or {"kind": "none", "at": -1}
        res = execute_workload(w, seed, only=(f["kind"], f["at"]) if f["kind"] != "none" else ("none", -2))
    else:
        w = gen(seed, tier)
        res = execute_workload(w, seed)
    vs = []
    seen = set()
    for v, f in res["violations"]:
        key = (v.cls, v.signature)
        if key in seen:
            continue
        seen.add(key)
        vs.append({"vio": v.to_json(), "replay": {"workload": w, "fault": f, "schedule": [],
                                                  "strategy": w["strategy"]}})
    ref = res["ref"]
    r = {
        "verdict": "violation" if vs else "ok",
        "vio": vs[0]["vio"] if vs else None,
        "violations": vs,
        "replay": vs[0]["replay"] if vs else {"workload": w, "schedule": []},
        "trace_hash": res["traces"],
        "nontrivial": True,
        "stats": {"steps": ref["steps"], "decisions": ref["decisions"], "threads": ref["threads"],
                  "sim_time": ref["sim_time"], "hangs": 0, "timeouts_fired": 0, "counters": {},
                  "fs_ops": len(ref["ops"]), "faults_fired": []},
        "states": set(),
        "faults": res["faults"],
        "probes": dict(res["probes"], **{f"prior_{w['prior']}": 1,
                                         "pool_saving_workloads": int(w["cfg"]["max_workers"] > 1),
                                         "multiprocess_inlined_saver_workloads":
                                             int(bool(w["cfg"].get("allow_multiprocess"))),
                                         "single_thread_workloads": int(w["cfg"]["processor"] == "single_thread")}),
        "strategy": w["strategy"].split(":")[0],
        "sub_evaluations": max(1, res["n_exec"]),
        "digest": [len(ref["ops"]), res["n_exec"], sorted(res["faults"].items())],
        "sample": {"target": w["target"], "cfg": w["cfg"], "prior": w["prior"],
                   "nodes": [{k: v for k, v in n.items() if k != "rows"} for n in w["spec"]["nodes"]],
                   "mutating_ops": res["probes"].get("ops_per_make"), "faulty_executions": res["n_exec"],
                   "first_ops": [list(op[1:4]) for op in ref["ops"][:10]]},
    }
    return r


def warm():
    pass
