"""C05 - a mailbox delivers every message exactly once, in order, to every subscriber.

Real code: strax.mailbox (Mailbox, divide_outputs).  Simulated: every thread
(senders, readers, divider, pool workers), the clock, futures.
"""
from functools import partial

from .. import sched as S
from ..core import SimRun, Violation, rng_for, jhash, ihash, classify_abort
from ..shims import SimExecutor

PROPERTY = "C05"
LEVEL = "exploration"
TIMEOUT = 60.0
QUICK_RUNS = 120_000
THOROUGH_RUNS = 1_500_000
COMPONENTS = {
    "real": ["strax.mailbox.Mailbox (send/_read/_send_from/close/kill/cleanup)",
             "strax.mailbox.divide_outputs"],
    "simulated": ["thread scheduling (baton-passing real threads)", "RLock/Condition",
                  "clock and timeouts", "futures and pool workers"],
    "stub": [],
}


# --------------------------------------------------------------------------
def gen(seed, tier):
    r = rng_for(seed, "workload")
    big = tier == "thorough"
    mode = r.choice(["iter", "iter", "iter", "direct", "direct", "divide", "divide"])
    n_msg = r.choice([0, 1, 1, 2, 2, 3, 3, 4, 5] + ([6, 8, 10, 12] if big else []))
    cap = r.randint(1, 4)
    lazy = r.random() < 0.4
    w = {
        "mode": mode,
        "n_msg": n_msg,
        "cap": cap,
        "lazy": lazy,
        "kinds": [r.choice("pppf") for _ in range(n_msg)],
        "fut_workers": r.randint(1, 3),
        "task_yields": [r.randint(0, 3) for _ in range(n_msg)],
        "main_reads": r.random() < 0.35,
    }
    if mode in ("iter", "direct"):
        n_sub = r.randint(1, 4 if big else 3)
        w["n_sub"] = n_sub
        w["work"] = [r.choice([0, 0, 1, 2]) for _ in range(n_sub)]
        # slow readers: simulated seconds of sleep after a given message (total < the mailbox timeout,
        # so no timeout may legitimately fire)
        w["sleeps"] = {}
        if n_msg and r.random() < 0.3:
            j = r.randrange(n_sub)
            w["sleeps"][f"s{j}"] = [r.randrange(n_msg), r.choice([1, 5, 30])]
        drv = [r.random() < 0.6 for _ in range(n_sub)]
        if not any(drv) and not w["main_reads"]:
            drv[r.randrange(n_sub)] = True
        w["drivers"] = drv
    if mode == "direct":
        w["lazy"] = lazy = False
        w["main_reads"] = False
        # explicit numbering: message k is sent at position pos[k] with pos[k]-k <= cap-1
        numbering = None
        if r.random() < 0.6 and n_msg > 1:
            order = []   # order[j] = number sent at position j
            remaining = list(range(n_msg))
            while remaining:
                # the smallest remaining number k may be delayed at most cap-1 positions
                k = remaining[0]
                j = len(order)
                if j - k >= cap - 1:
                    pick = k
                else:
                    pick = r.choice(remaining[: cap])
                order.append(pick)
                remaining.remove(pick)
            numbering = order
        w["numbering"] = numbering
        late = [r.random() < 0.3 for _ in range(w["n_sub"])]
        w["late"] = [(r.randint(0, min(cap, n_msg)) if l else None) for l in late]
    if mode == "divide":
        n_out = r.randint(2, 3)
        outs = []
        for o in range(n_out):
            ns = r.randint(1, 2)
            drv = [r.random() < 0.6 for _ in range(ns)]
            outs.append({"n_sub": ns, "drivers": drv, "work": [r.choice([0, 0, 1]) for _ in range(ns)],
                         "flow_freely": False})
        if lazy:
            # like the processor: outputs nobody needs flow freely; all others have a driver
            for o in outs:
                if r.random() < 0.35:
                    o["flow_freely"] = True
            if all(o["flow_freely"] for o in outs):
                outs[0]["flow_freely"] = False
            for o in outs:
                if not o["flow_freely"] and not any(o["drivers"]):
                    o["drivers"][0] = True
        # the `outputs` argument may name a strict subset of `mailboxes`: the last mailbox then has a sender of its
        # own (as a loaded output has in the processor) sending `own_n` messages, and the divider must leave it alone
        w["own_n"] = None
        if r.random() < 0.3:
            outs[-1]["flow_freely"] = False
            if not any(outs[-1]["drivers"]):
                outs[-1]["drivers"][0] = True
            w["own_n"] = r.randint(0, n_msg + 3)
        w["outs"] = outs
        w["main_reads"] = False
        w["start_order"] = r.sample(range(n_out + 1), n_out + 1)
        w["sleeps"] = {}
        if n_msg and r.random() < 0.3:
            o = r.randrange(n_out)
            w["sleeps"][f"o{o}.s{r.randrange(outs[o]['n_sub'])}"] = [r.randrange(n_msg), r.choice([1, 5, 30])]
    return w


def shrink(w):
    """Smaller workloads, most aggressive first."""
    if w["n_msg"] > 0 and w.get("numbering") is None:
        for n in sorted({0, 1, w["n_msg"] // 2, w["n_msg"] - 1}):
            if n < w["n_msg"]:
                c = dict(w, n_msg=n, kinds=w["kinds"][:n], task_yields=w["task_yields"][:n])
                if c.get("late"):
                    c["late"] = [None if l is None else min(l, n) for l in c["late"]]
                yield c
    if w.get("sleeps"):
        yield dict(w, sleeps={})
    if any(k == "f" for k in w["kinds"]):
        yield dict(w, kinds=["p"] * w["n_msg"])
    if w.get("n_sub", 0) > 1:
        n = w["n_sub"] - 1
        c = dict(w, n_sub=n, work=w["work"][:n], drivers=w["drivers"][:n])
        if not any(c["drivers"]) and not c["main_reads"]:
            c["drivers"] = [True] + c["drivers"][1:]
        if "late" in c:
            c["late"] = c["late"][:n]
        yield c
    if w.get("work") and any(w["work"]):
        yield dict(w, work=[0] * len(w["work"]))
    if w.get("numbering"):
        yield dict(w, numbering=None)
    if w.get("late") and any(l is not None for l in w["late"]):
        yield dict(w, late=[None] * len(w["late"]))
    if w["mode"] == "divide" and w.get("own_n") is not None:
        yield dict(w, own_n=None)
    elif w["mode"] == "divide" and len(w["outs"]) > 2:
        c = dict(w, outs=w["outs"][:-1])
        c["start_order"] = [x for x in w["start_order"] if x < len(c["outs"]) + 1]
        if not (w["lazy"] and all(o["flow_freely"] for o in c["outs"])):
            yield c


# --------------------------------------------------------------------------
class _Inv:
    """Invariants evaluated by the scheduler after every step."""

    def __init__(self, boxes):
        self.boxes = boxes
        self.bad = None
        self.states = set()
        self.minread = {id(m): -1 for m in boxes}
        self.enabled = True
        self.max_len = 0

    def __call__(self, sim):
        if not self.enabled or self.bad:
            return
        try:
            for m in self.boxes:
                n = len(m._mailbox)
                if n > self.max_len:
                    self.max_len = n
                if not m.lazy and n > m.max_messages:
                    self.bad = Violation("CAPACITY", "eager mailbox holds more messages than its capacity",
                                         f"{m.name} holds {n} > {m.max_messages} at step {sim.steps}")
                hr = m._subscribers_have_read
                if hr:
                    mr = min(hr)
                    if mr < self.minread.get(id(m), -1):
                        self.bad = Violation("READ_POINTER", "minimum read pointer decreased", m.name)
                    self.minread[id(m)] = mr
                    if m._mailbox and not m.killed and m._mailbox[0][0] <= mr:
                        self.bad = Violation("GC", "mailbox keeps a message every subscriber has read",
                                             f"{m.name} lowest={m._mailbox[0][0]} minread={mr}")
                    st = (m.name, n, tuple(x - mr for x in hr),
                          tuple(None if x is None else x - mr for x in m._subscriber_waiting_for),
                          m.killed, m.closed)
                    self.states.add(ihash(st))
        except AttributeError:
            self.enabled = False   # refactored internals: degrade coverage, never alarm


def _expected(w):
    return [("r" if k == "f" else "m", i) for i, k in enumerate(w["kinds"])]


def _body(w, sim, rec):
    import strax
    n = w["n_msg"]
    ex = None
    if any(k == "f" for k in w["kinds"]):
        ex = SimExecutor(max_workers=w["fut_workers"])

    def task(i):
        for _ in range(w["task_yields"][i]):
            sim.yield_point("task")
        return ("r", i)

    def msg(i, wrap=None):
        if w["kinds"][i] == "f":
            return ex.submit(task, i)
        return ("m", i)

    def make_reader(key, work):
        rec["got"][key] = []

        nap = (w.get("sleeps") or {}).get(key)

        def reader(source):
            for x in source:
                rec["got"][key].append(x)
                for _ in range(work):
                    sim.yield_point("work")
                if nap is not None and len(rec["got"][key]) - 1 == nap[0]:
                    sim.sleep(nap[1])
            rec["done"].add(key)
        return reader

    mode = w["mode"]
    if mode == "iter":
        mb = strax.Mailbox(name="mb", timeout=TIMEOUT, lazy=w["lazy"], max_messages=w["cap"])
        rec["boxes"].append(mb)

        def source():
            for i in range(n):
                yield msg(i)
        mb.add_sender(source())
        for j in range(w["n_sub"]):
            mb.add_reader(make_reader(f"s{j}", w["work"][j]), can_drive=w["drivers"][j])
        final = None
        if w["main_reads"]:
            final = mb.subscribe()
            rec["got"]["main"] = []
        mb.start()
        if final is not None:
            for x in final:
                rec["got"]["main"].append(x)
            rec["done"].add("main")
        mb.cleanup()

    elif mode == "direct":
        from ..shims import CTX
        mb = strax.Mailbox(name="mb", timeout=TIMEOUT, lazy=False, max_messages=w["cap"])
        rec["boxes"].append(mb)
        threads = []
        for j in range(w["n_sub"]):
            t = S.SimThread(sim, target=make_reader(f"s{j}", w["work"][j]), name=f"reader{j}",
                            args=(mb.subscribe(can_drive=w["drivers"][j]),))
            threads.append(t)
        started = set()
        for j, t in enumerate(threads):
            if w["late"][j] is None:
                t.start()
                started.add(j)
        order = w["numbering"] if w["numbering"] is not None else list(range(n))
        for pos, k in enumerate(order):
            for j, t in enumerate(threads):
                if j not in started and w["late"][j] == pos:
                    t.start()
                    started.add(j)
            mb.send(msg(k), msg_number=(k if w["numbering"] is not None else None))
        for j, t in enumerate(threads):
            if j not in started:
                t.start()
        mb.close()
        for t in threads:
            t.join(timeout=TIMEOUT)
            if t.is_alive():
                raise Violation("THREAD_STUCK", "reader did not terminate within the timeout", t.name)

    elif mode == "divide":
        lazy = w["lazy"]
        m0 = strax.Mailbox(name="div", timeout=TIMEOUT, lazy=lazy, max_messages=w["cap"])
        outs = {f"o{i}": strax.Mailbox(name=f"o{i}", timeout=TIMEOUT, lazy=lazy, max_messages=w["cap"])
                for i in range(len(w["outs"]))}
        rec["boxes"].extend([m0] + list(outs.values()))

        def source():
            for i in range(n):
                yield {d: ("x", d, i) for d in outs}
        m0.add_sender(source())
        ff = tuple(f"o{i}" for i, o in enumerate(w["outs"]) if o["flow_freely"])
        divided = tuple(outs)
        if w.get("own_n") is not None:
            divided = divided[:-1]
            own = tuple(outs)[-1]

            def own_source():
                for i in range(w["own_n"]):
                    yield ("x", own, i)
            outs[own].add_sender(own_source(), name="own_sender")
        m0.add_reader(partial(strax.divide_outputs, lazy=lazy, mailboxes=outs, flow_freely=ff,
                              outputs=divided))
        for i, o in enumerate(w["outs"]):
            for j in range(o["n_sub"]):
                outs[f"o{i}"].add_reader(make_reader(f"o{i}.s{j}", o["work"][j]), can_drive=o["drivers"][j])
        allb = [m0] + list(outs.values())
        for i in w["start_order"]:
            if i < len(allb):
                allb[i].start()
        for m in allb:
            m.cleanup()
    if ex is not None:
        ex.shutdown(wait=True)


def execute(w, seed, strategy="random", forced=None, strict=False):
    rec = {"got": {}, "done": set(), "boxes": []}
    R = SimRun(seed, strategy=strategy, forced=forced, strict=strict, est_steps=40 + 30 * w["n_msg"])
    vio = None
    with R:
        sim = R.sim
        inv = _Inv(rec["boxes"])
        sim.step_hooks.append(inv)
        out = R.main(lambda: _body(w, sim, rec))
    sim = R.sim
    # ---- oracle ----
    ab = classify_abort(sim)
    inconclusive = ab == "inconclusive"
    if isinstance(ab, Violation):
        vio = ab
    if vio is None and inv.bad:
        vio = inv.bad
    if vio is None and sim.lost_wakeups:
        lw = sim.lost_wakeups[0]
        vio = Violation("LOST_WAKEUP", f"a thread keeps waiting although its condition holds ({lw['predicate']})", lw)
    if vio is None and sim.hangs:
        h = sim.hangs[0]
        vio = Violation("HANG", f"progress only by timeout: {h['fired'].split(':')[0].rstrip('0123456789')} "
                                f"waiting on {h['waiting_on']}", h)
    if vio is None and out[0] == "exc":
        e = out[1]
        if isinstance(e, S.HarnessError):
            raise e
        if isinstance(e, Violation):
            vio = e
        else:
            vio = Violation("EXC", f"{type(e).__name__} in caller", repr(e))
    if vio is None and sim.thread_excs:
        nm, e = sim.thread_excs[0]
        if isinstance(e, S.HarnessError):
            raise e
        vio = Violation("EXC", f"{type(e).__name__} in thread", f"{nm}: {e!r}")
    if vio is None and not inconclusive and out[0] == "ok":
        if w["mode"] == "divide":
            for key, got in sorted(rec["got"].items()):
                d = key.split(".")[0]
                n_exp = w["n_msg"]
                if w.get("own_n") is not None and d == f"o{len(w['outs']) - 1}":
                    n_exp = w["own_n"]
                exp = [("x", d, i) for i in range(n_exp)]
                if got != exp:
                    vio = _delivery_violation(key, got, exp)
                    break
        else:
            exp = _expected(w)
            for key, got in sorted(rec["got"].items()):
                if got != exp:
                    vio = _delivery_violation(key, got, exp)
                    break
        if vio is None and set(rec["got"]) - rec["done"]:
            vio = Violation("NO_TERMINATION", "subscriber iterator did not terminate",
                            sorted(set(rec["got"]) - rec["done"]))
        if vio is None and R.alive_at_return:
            vio = Violation("THREADS_ALIVE", "threads alive after cleanup returned", R.alive_at_return)
    st = R.stats()
    res = {
        "verdict": "violation" if vio else ("inconclusive" if inconclusive else "ok"),
        "vio": vio.to_json() if vio else None,
        "trace_hash": R.trace_hash(jhash(w)),
        "nontrivial": st["threads"] >= 2 and st["decisions"] >= 1,
        "stats": st,
        "states": inv.states,
        "probes": {"max_buffer_len": inv.max_len, "inv_enabled": int(inv.enabled)},
        "strategy": strategy.split(":")[0],
        "replay": {"workload": w, "schedule": list(sim.trace), "strategy": strategy},
        "sample": {"workload": w, "decisions": st["decisions"], "steps": st["steps"]},
    }
    return res


def _delivery_violation(key, got, exp):
    if len(got) < len(exp) and got == exp[: len(got)]:
        sig = "messages missing at the end"
    elif sorted(map(repr, got)) == sorted(map(repr, exp)):
        sig = "messages out of order"
    elif len(set(map(repr, got))) < len(got):
        sig = "message delivered more than once"
    elif len(got) < len(exp):
        sig = "messages missing"
    else:
        sig = "wrong messages"
    return Violation("WRONG_DELIVERY", sig, {"subscriber": key, "got": got, "expected": exp})


def run_one(seed, tier, replay=None, lenient=False):
    if replay is not None:
        w = replay["workload"]
        return execute(w, seed, strategy=replay.get("strategy", "random"),
                       forced=replay["schedule"], strict=not lenient)
    w = gen(seed, tier)
    spec = S.swarm_strategy_spec(rng_for(seed, "strategy"), starve_names=("read", "source", "pool", "main"))
    return execute(w, seed, strategy=spec)
