"""C01 - results do not depend on chunking, processor, parallelism or what is stored.

The whole Context.get_iter call (get_components, processor wiring, every mailbox /
plugin / saver / loader thread, Rechunker, FileSaver on SimFS) runs for real under a
seeded schedule; the oracle is an independent whole-run numpy evaluation of the graph.
"""
import numpy as np

from .. import gen as G
from .. import plugins as P
from .. import sched as S
from ..core import Violation, rng_for
from ..pipeline import (PipelineRun, base_result, check_tiling, chunk_rows, common_verdict, prestore,
                        sig_of_exception)

PROPERTY = "C01"
LEVEL = "exploration"
QUICK_RUNS = 4000
THOROUGH_RUNS = 120_000
QUICK_BUDGET_S = 110
BATCH = 25
SMOKE_RUNS = 6
DETERMINISM_RUNS = 40
KINDS = G.KINDS_WITH_MERGEONLY
MUST = None
COMPONENTS = {
    "real": ["strax.Context.get_iter/get_components", "ThreadedMailboxProcessor", "SingleThreadProcessor",
             "PostOffice", "Mailbox", "Plugin.iter / do_compute", "OverlapWindow/Loop/DownChunking/Exhaust "
             "plugins", "Chunk split/concatenate/merge", "Rechunker", "Saver/FileSaver", "StorageBackend.loader",
             "strax.io save_file/load_file (blosc)"],
    "simulated": ["thread scheduling", "locks/conditions", "clock", "thread pool and futures",
                  "file system (in-memory SimFS, every operation a yield point)"],
    "stub": [],
}
ROW_BYTES = 24


def decorate(r, spec, pool, mp=False):
    """Per-node options: save policy, rechunking, target chunk size, parallel."""
    for n in spec["nodes"]:
        o = {}
        sw = r.choice(["ALWAYS", "ALWAYS", "ALWAYS", "TARGET", "EXPLICIT", "NEVER"])
        if "names" in n:
            o["save_when"] = {d: r.choice(["ALWAYS", "ALWAYS", "TARGET", "EXPLICIT", "NEVER"]) for d in n["names"]}
            o["rechunk_on_save"] = {d: r.random() < 0.5 for d in n["names"]}
        else:
            o["save_when"] = sw
            o["rechunk_on_save"] = r.random() < 0.5
        # a target below one row is a configuration error ("Target size is too small"), not a subject of C01
        isz = (P.merged_dtype_for(n["deps"]).itemsize if n["kind"] == "mergeonly"
               else max(P.dtype_for(d).itemsize for d in P.names_of(n)))
        rb = max(ROW_BYTES, isz)
        o["target_mb"] = r.choice([200, 200, 4 * rb / 1e6, 2 * rb / 1e6, rb / 1e6])
        if pool and n["kind"] in ("rowmap", "filter", "merge2", "multi", "multi2", "cut", "mergeonly") and r.random() < 0.6:
            o["parallel"] = True
        # Multiprocessing mode is explored in its realistic shape only: ONE process-parallel source (mp_source,
        # a source the target needs; in half of these runs it or other types may be loaded from storage, so the
        # ParallelSourcePlugin then starts from a non-source plugin) from which a ParallelSourcePlugin inlines
        # the process-parallel plugins above it.  Outside that shape ParallelSourcePlugin has a known limit
        # (DESIGN.md 12.2): it drives everything it inlines with the chunk index of its start plugin and inlines
        # a second dependency-free source as well.
        if mp and ((n["kind"] in ("rowmap", "filter", "multi", "multi2", "cut") and r.random() < 0.7) or n.get("name") == mp):
            o["parallel"] = "process"
            if r.random() < 0.7:        # savers of non-rechunking outputs are inlined ('forked') too
                o["rechunk_on_save"] = {d: False for d in n["names"]} if "names" in n else False
        n["opts"] = o


def gen(seed, tier, kinds=None, must=None, **graph_opts):
    r = rng_for(seed, "workload")
    big = tier == "thorough"
    go = dict(n_derived=(1, 6 if big else 5), n_sources=(1, 3 if big else 2),
              kinds=kinds or KINDS, must_have=must or MUST, n_rows=(0, 16 if big else 10), max_chunks=8)
    go.update(graph_opts)
    forced_target = None
    if kinds is None and must is None and not graph_opts and r.random() < 0.12:
        spec, top = G.gen_sibling_diamond(r, n_rows=(1, 16 if big else 10))
        if r.random() < 0.8:
            forced_target = top
    else:
        spec = G.gen_graph(r, **go)
    types = [d for n in spec["nodes"] for d in P.names_of(n)]
    derived = [d for n in spec["nodes"] if n["kind"] != "source" for d in P.names_of(n)]
    if forced_target:
        tgt_pool = [forced_target]
    elif must or MUST:
        tgt_pool = [d for d in derived if any(P.node_by_type(spec)[a]["kind"] in (must or MUST)
                                              for a in G.needed_for(spec, d))] or derived
    else:
        tgt_pool = derived
    target = r.choice(tgt_pool) if r.random() < 0.9 else r.choice(types)
    need = sorted(G.needed_for(spec, target))
    # stored subset, each type in its own unrelated chunking
    orc = P.oracle(spec)
    start, end = P.run_range(spec)
    stored = {}
    diamond = spec["nodes"][1]["kind"] == "multi2" and spec["nodes"][1]["names"] == ["n0x", "n0y"]
    if r.random() < (0.75 if diamond else 0.5):
        for d in need:
            if r.random() < (0.5 if diamond else 0.35):
                rows = [[int(a), int(b), 0] for a, b in zip(orc[d]["time"], orc[d]["endtime"])]
                stored[d] = G.gen_bounds(r, rows, start, end, max_chunks=6)
    cfg = G.gen_proc_config(r, spec, target, stored=stored, tier=tier)
    mp_source = False
    if cfg.get("allow_multiprocess"):
        if r.random() < 0.5:
            stored = {}
        mp_source = sorted(d for d in need if P.node_by_type(spec)[d]["kind"] == "source")[0]
    decorate(r, spec, cfg["max_workers"] > 1, mp=mp_source)
    nb = P.node_by_type(spec)
    for d in list(stored):
        sw = nb[d].get("opts", {}).get("save_when")
        if (sw[d] if isinstance(sw, dict) else sw) == "NEVER":
            del stored[d]
    w = {"spec": spec, "target": target, "cfg": cfg, "stored": stored,
         "fs_order": r.choice([0, 1, 7]), "exec_pick_random": r.random() < 0.7,
         "est_steps": 300 + 120 * len(spec["nodes"])}
    return w


def shrink(w):
    spec = w["spec"]
    need = G.needed_for(spec, w["target"])
    # drop nodes the target does not need
    keep = [n for n in spec["nodes"] if set(P.names_of(n)) & need]
    if len(keep) < len(spec["nodes"]):
        yield dict(w, spec=dict(spec, nodes=keep), stored={k: v for k, v in w["stored"].items() if k in need})
    if w["stored"]:
        for d in sorted(w["stored"]):
            yield dict(w, stored={k: v for k, v in w["stored"].items() if k != d})
    if w["cfg"].get("max_workers", 1) > 1:
        yield dict(w, cfg=dict(w["cfg"], max_workers=1))
    # fewer rows / chunks per source
    for i, n in enumerate(spec["nodes"]):
        if n["kind"] == "source" and len(n["rows"]) > 0 and not w["stored"]:
            for keep_n in sorted({0, len(n["rows"]) // 2, len(n["rows"]) - 1}):
                if keep_n < len(n["rows"]):
                    rows = n["rows"][:keep_n]
                    last = max([x[1] for x in rows], default=n["bounds"][0])
                    bounds = sorted({b for b in n["bounds"] if b >= last or all(
                        not (x[0] < b < x[1]) for x in rows)})
                    bounds = [b for b in bounds if all(not (x[0] < b < x[1]) for x in rows)]
                    if bounds[0] != n["bounds"][0] or bounds[-1] != n["bounds"][-1]:
                        continue
                    nodes = list(spec["nodes"])
                    nodes[i] = dict(n, rows=rows, bounds=bounds)
                    yield dict(w, spec=dict(spec, nodes=nodes))
        if n["kind"] == "source" and len(n["bounds"]) > 2 and not w["stored"]:
            nodes = list(spec["nodes"])
            nodes[i] = dict(n, bounds=[n["bounds"][0], n["bounds"][-1]])
            yield dict(w, spec=dict(spec, nodes=nodes))
    # default (large) target sizes: no rechunk splitting
    if any(n.get("opts", {}).get("target_mb", 200) != 200 for n in spec["nodes"]):
        nodes = [dict(n, opts=dict(n.get("opts", {}), target_mb=200)) for n in spec["nodes"]]
        yield dict(w, spec=dict(spec, nodes=nodes))


def execute(w, seed, strategy="random", forced=None, strict=False):
    pr = PipelineRun(w, seed, strategy=strategy, forced=forced, strict=strict)
    spec, target = w["spec"], w["target"]
    res = {}

    def body():
        pr.build()
        ctx = pr.context()
        for d, bounds in sorted(w["stored"].items()):
            prestore(ctx, pr.run_id, d, pr.oracle[d], bounds)
        res["ops_before"] = len(pr.fs.ops)
        pr.install_invariants()
        res["chunks"] = pr.get_chunks(ctx, target)
        res["alive"] = [t.name for t in pr.R.sim.live_threads()]
        # a fresh context re-reads everything that is stored now
        fresh = pr.context(extra={"forbid_creation_of": "*"})
        types = [d for n in spec["nodes"] for d in P.names_of(n)]
        res["reloaded"] = pr.load_all_stored(fresh, types)
        return True

    with pr.R:
        out = pr.R.main(body)
    vio, inconclusive = common_verdict(pr, out)
    if vio is None and not inconclusive:
        if out[0] == "exc":
            e = out[1]
            stage = "reload" if "chunks" in res else "get_iter"
            vio = Violation("EXC", f"{stage}: {sig_of_exception(e)}", repr(e)[:1500])
        elif out[0] == "ok":
            exp = pr.oracle[target]
            chunks = res["chunks"]
            got = np.concatenate([c[2] for c in chunks]) if chunks else exp[:0]
            if not P.rows_equal(got, exp):
                vio = Violation("WRONG_ROWS", f"target rows differ from whole-run evaluation "
                                              f"({P.node_by_type(spec)[target]['kind']})",
                                P.describe_diff(got, exp))
            if vio is None:
                s, e = P.run_range(spec)
                vio = check_tiling([(a, b, d) for a, b, d, _ in chunks], s, e)
            if vio is None and res["alive"]:
                vio = Violation("THREADS_ALIVE", "pipeline threads alive after get_iter finished", res["alive"])
            if vio is None:
                for d, arr in sorted(res["reloaded"].items()):
                    if not P.rows_equal(arr, pr.oracle[d]):
                        vio = Violation("STORED_WRONG", f"stored data re-read by a fresh context differs "
                                                        f"({P.node_by_type(spec)[d]['kind']})",
                                        f"{d}: " + P.describe_diff(arr, pr.oracle[d]))
                        break
    r = base_result(pr, w, vio, inconclusive, strategy=strategy,
                    extra_probes={"n_stored_types": len(w["stored"]),
                                  "reloaded_types": len(res.get("reloaded", {})),
                                  "pool_runs": int(w["cfg"]["max_workers"] > 1),
                                  "multiprocess_stub_runs": int(bool(w["cfg"].get("allow_multiprocess"))),
                                  "single_thread_runs": int(w["cfg"]["processor"] == "single_thread")})
    kinds = sorted({n["kind"] for n in spec["nodes"]})
    r["sample"] = {"target": target, "cfg": w["cfg"], "stored": sorted(w["stored"]),
                   "nodes": [{k: v for k, v in n.items() if k not in ("rows",)} for n in spec["nodes"]],
                   "n_chunks_out": len(res.get("chunks", [])), "steps": r["stats"]["steps"],
                   "decisions": r["stats"]["decisions"]}
    for k in kinds:
        r["probes"][f"kind_{k}"] = 1
    return r


def run_one(seed, tier, replay=None, lenient=False):
    if replay is not None:
        return execute(replay["workload"], seed, strategy=replay.get("strategy", "random"),
                       forced=replay["schedule"], strict=not lenient)
    w = gen(seed, tier)
    spec = S.swarm_strategy_spec(rng_for(seed, "strategy"))
    return execute(w, seed, strategy=spec)


def warm():
    """Compile the numba kernels the pipelines use (split_array, endtime, diff ...)."""
    for s in range(3):
        run_one(s, "quick")
