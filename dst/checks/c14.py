"""C14 - a superrun is exactly the ordered concatenation of its subruns.

1..4 generated subruns (own rows, own chunk layout, gaps of 0 / 1 / 5000 / 2e9 ns between
them) with run metadata on SimFS; define_run; a chain of plugins whose allow_superrun level
starts at depth 0..2; write_superruns on/off; rechunking across subrun borders; both
processors under seeded schedules; then reloading from a fresh context and redefinition
of the superrun.  Oracle: ordered concatenation of the per-subrun whole-run oracles;
chunk.subruns spans tile every subrun exactly once and contain the rows they claim; after
redefinition previously stored superrun data is unavailable, never stale.
"""
import datetime

import numpy as np

import strax

from .. import gen as G
from .. import plugins as P
from .. import sched as S
from ..core import Violation, rng_for
from ..pipeline import DATA_DIR, PipelineRun, base_result, common_verdict, sig_of_exception
from . import c01

PROPERTY = "C14"
LEVEL = "exploration"
QUICK_RUNS = 8000
THOROUGH_RUNS = 100_000
QUICK_BUDGET_S = 100
BATCH = 25
SMOKE_RUNS = 6
DETERMINISM_RUNS = 30
COMPONENTS = dict(c01.COMPONENTS, real=c01.COMPONENTS["real"] + [
    "Context superrun branch of get_components (make subruns, chained loaders)", "define_run / run metadata",
    "Chunk sub/superrun bookkeeping"])
SUP = "_sup"


NAME_SCHEMES = (("0", "1", "2", "3"), ("0", "1", "2", "3"), ("8", "9", "10", "11"), ("r2", "r10", "r1", "r03"),
                ("b", "a", "d", "c"))


def gen(seed, tier):
    r = rng_for(seed, "workload")
    n_runs = r.choice([1, 2, 2, 3, 3, 4])
    # run ids whose lexical order is not their start order, half of the time
    names = r.choice(NAME_SCHEMES)[:n_runs]
    runs = {}
    t0 = r.choice([0, 3, 1000])
    for i in range(n_runs):
        rows = G.gen_rows(r, r.randint(0, 6), disjoint=r.random() < 0.7, t0=t0)
        s = t0
        e = max([x[1] for x in rows], default=s + 1) + r.choice([0, 1, 5])
        if e <= s:
            e = s + 1
        rows = [x for x in rows if x[0] >= s]
        # C14's quantifier does not include zero-duration chunks (C01/C08 cover those): keep bounds distinct
        runs[names[i]] = {"rows": rows, "bounds": sorted(set(G.gen_bounds(r, rows, s, e, max_chunks=4,
                                                                            zero_dur_p=0.0)))}
        t0 = e + r.choice([0, 1, 5000, 2_000_000_000])
    first = names[0]
    depth = r.randint(1, 3)
    level = r.randint(0, depth - 1)
    nodes = [{"name": "sa", "kind": "source", "rows": runs[first]["rows"], "bounds": runs[first]["bounds"],
              "runs": runs, "opts": {"save_when": "ALWAYS", "rechunk_on_save": False}}]
    prev = "sa"
    # the first superrun-capable plugin may sit on TWO data types that are not superrun-capable
    two_inputs = r.random() < 0.3
    for i in range(depth):
        kind = r.choice(["rowmap", "rowmap", "filter"])
        if two_inputs and i == level:
            aux = {"name": "aux", "kind": "rowmap", "dep": "sa", "a": 2, "b": 7,
                   "opts": {"save_when": "ALWAYS", "rechunk_on_save": r.random() < 0.5, "target_mb": 200,
                            "allow_superrun": False}}
            if P.kinds_of({"nodes": nodes})[prev] == "k_sa":     # same kind, row aligned with the source
                nodes.append(aux)
                n = {"name": f"n{i}", "kind": "merge2", "deps": [prev, "aux"] if r.random() < 0.5 else ["aux", prev]}
                kind = "merge2"
            else:
                two_inputs = False
        if kind != "merge2":
            n = {"name": f"n{i}", "kind": kind, "dep": prev}
            n.update({"a": r.choice([1, 2, 3]), "b": i} if kind == "rowmap" else {"m": 3, "r": r.randrange(3)})
        n["opts"] = {"save_when": "ALWAYS", "rechunk_on_save": r.random() < 0.6,
                     "target_mb": r.choice([200, 2 * 24 / 1e6, 5 * 24 / 1e6]), "allow_superrun": i >= level}
        nodes.append(n)
        prev = n["name"]
    spec = {"run_id": SUP, "nodes": nodes}
    cfg = {"processor": r.choice(["threaded_mailbox", "single_thread"]), "max_workers": 1,
           "allow_lazy": r.random() < 0.5, "allow_rechunk": r.random() < 0.8, "max_messages": r.randint(1, 4),
           "write_superruns": r.random() < 0.6}

    def with_ranges(ids, p):
        """[[run id, None | [t0, t1]] ...]: a subrun may be included through a time range between two of its
        chunk boundaries (no row straddles those)."""
        out = []
        for rid in ids:
            b = runs[rid]["bounds"]
            rng = None
            if r.random() < p and len(b) >= 2:
                i0 = r.randrange(len(b) - 1)
                i1 = r.randrange(i0 + 1, len(b))
                if (b[i0], b[i1]) != (b[0], b[-1]):
                    rng = [b[i0], b[i1]]
            out.append([rid, rng])
        return out

    defn = with_ranges(names, 0.12)
    redefine = None
    if r.random() < 0.5:
        if n_runs >= 2 and r.random() < 0.7:
            k = r.randint(1, n_runs - 1)
            keep = sorted(r.sample(range(n_runs), k))
            redefine = [[names[i], None] for i in keep]
        else:
            # the same runs, another time range for at least one of them
            for _ in range(6):
                cand = with_ranges(names, 0.6)
                if cand != defn:
                    redefine = cand
                    break
    # who redefines: the context that made the data, or another one on the same storage (the first one has
    # looked up the superrun's keys before and is used again afterwards)
    redefine_via = r.choice(["other", "other", "same"])
    # time ranges (stored superruns only) that start / end exactly on subrun borders: subruns k..m
    ranges = []
    for _ in range(r.choice([0, 1, 2])):
        k = r.randrange(n_runs)
        ranges.append([k, r.randrange(k, n_runs)])
    return {"spec": spec, "target": prev, "cfg": cfg, "stored": {}, "runs": list(names), "defn": defn,
            "redefine": redefine, "redefine_via": redefine_via, "ranges": ranges,
            "fs_order": r.choice([0, 1]), "est_steps": 800}


def shrink(w):
    if w["redefine"]:
        yield dict(w, redefine=None)
    if w.get("ranges"):
        yield dict(w, ranges=[])
        if len(w["ranges"]) > 1:
            yield dict(w, ranges=w["ranges"][:1])
            yield dict(w, ranges=w["ranges"][1:])
    nodes = w["spec"]["nodes"]
    if any(n.get("opts", {}).get("target_mb", 200) != 200 for n in nodes):
        yield dict(w, spec=dict(w["spec"], nodes=[dict(n, opts=dict(n["opts"], target_mb=200)) for n in nodes]))


def spec_for_run(spec, rid):
    nodes = []
    for n in spec["nodes"]:
        if n["kind"] == "source":
            n = dict(n, rows=n["runs"][rid]["rows"], bounds=n["runs"][rid]["bounds"])
        nodes.append(n)
    return dict(spec, nodes=nodes, run_id=rid)


def defn_of(w):
    return w["defn"] if "defn" in w else [[rid, None] for rid in w["runs"]]


def to_spec(defn):
    return {rid: ("all" if rng is None else [int(rng[0]), int(rng[1])]) for rid, rng in defn}


def concat_oracle(spec, defn, target):
    parts = []
    for rid, rng in defn:
        rows = P.oracle(spec_for_run(spec, rid))[target]
        if rng is not None:
            rows = rows[(rows["time"] >= rng[0]) & (rows["endtime"] <= rng[1])]
        parts.append(rows)
    return np.concatenate(parts) if parts else None


def check_subruns(chunks, spec, defn):
    """chunk.subruns bookkeeping against the true spans of the subruns (or of the time range taken from them)."""
    src = spec["nodes"][0]
    rids = [rid for rid, _ in defn]
    span = {rid: ((src["runs"][rid]["bounds"][0], src["runs"][rid]["bounds"][-1]) if rng is None
                  else (rng[0], rng[1])) for rid, rng in defn}
    seen = {rid: [] for rid in rids}
    for i, (a, b, data, sub) in enumerate(chunks):
        if not sub:
            return Violation("NO_SUBRUNS", "a superrun chunk carries no subrun information", (i, a, b))
        for rid, se in sub.items():
            if rid not in span:
                return Violation("BAD_SUBRUNS", "chunk lists a run that is not a subrun", (i, rid))
            if se["start"] < span[rid][0] or se["end"] > span[rid][1] or se["start"] > se["end"]:
                return Violation("BAD_SUBRUNS", "subrun span outside the subrun's own time range",
                                 (i, rid, se, span[rid]))
            if se["start"] < a or se["end"] > b:
                return Violation("BAD_SUBRUNS", "subrun span outside the chunk that lists it", (i, rid, se, (a, b)))
            seen[rid].append((se["start"], se["end"]))
        for t, e in zip(data["time"].tolist(), data["endtime"].tolist()):
            owner = [rid for rid in rids if span[rid][0] <= t and e <= span[rid][1]]
            ok = any(rid in sub and sub[rid]["start"] <= t and e <= sub[rid]["end"] for rid in owner)
            if not ok:
                return Violation("BAD_SUBRUNS", "a row lies outside every subrun span its chunk records",
                                 (i, (t, e), sub))
    for rid in rids:
        spans = sorted(seen[rid])
        if not spans:
            return Violation("BAD_SUBRUNS", "a subrun is recorded in no chunk", rid)
        if spans[0][0] != span[rid][0] or spans[-1][1] != span[rid][1]:
            return Violation("BAD_SUBRUNS", "recorded spans do not cover the subrun", (rid, spans, span[rid]))
        for (s0, e0), (s1, e1) in zip(spans[:-1], spans[1:]):
            if s1 != e0:
                return Violation("BAD_SUBRUNS", "recorded spans of a subrun overlap or leave a gap (subrun copied "
                                                "into two chunks / dropped)", (rid, spans))
    return None


def execute(w, seed, strategy="random", forced=None, strict=False):
    pr = PipelineRun(w, seed, strategy=strategy, forced=forced, strict=strict)
    pr.run_id = SUP
    spec, target, rids = w["spec"], w["target"], w["runs"]
    defn = defn_of(w)
    span = {rid: ((spec["nodes"][0]["runs"][rid]["bounds"][0], spec["nodes"][0]["runs"][rid]["bounds"][-1])
                  if rng is None else tuple(rng)) for rid, rng in defn}
    res = {}

    def mk_ctx(extra=None):
        return pr.context(storage=[strax.DataDirectory(DATA_DIR, provide_run_metadata=True)], extra=extra)

    def body():
        pr.build()
        ctx = mk_ctx()
        sf = ctx.storage[0]
        base = datetime.datetime(2020, 1, 1)
        for i, rid in enumerate(rids):
            sf.write_run_metadata(rid, {"name": rid, "start": base + datetime.timedelta(seconds=100 * i),
                                        "end": base + datetime.timedelta(seconds=100 * i + 50),
                                        "mode": "m", "source": "s"})
        ctx.define_run(SUP, list(rids) if all(rng is None for _, rng in defn) else to_spec(defn))
        pr.install_invariants()
        res["chunks"] = pr.get_chunks(ctx, target)
        res["alive"] = [t.name for t in pr.R.sim.live_threads()]
        fresh = mk_ctx()
        res["stored_super"] = fresh.is_stored(SUP, target)
        res["reload_chunks"] = pr.get_chunks(fresh, target)
        res["range_reads"] = []
        if res["stored_super"]:
            for k, m in w.get("ranges", []):
                t0, t1 = span[rids[k]][0], span[rids[m]][1]
                res["range_reads"].append((k, m, pr.get_chunks(fresh, target, time_range=(t0, t1))))
        if w["redefine"]:
            other = mk_ctx()
            definer = ctx if w.get("redefine_via", "other") == "same" else other
            new = w["redefine"]
            new = [[x, None] for x in new] if new and isinstance(new[0], str) else new
            definer.define_run(SUP, [x for x, _ in new] if all(g is None for _, g in new) else to_spec(new))
            users = {"the context that made the data": ctx, "a context that read the data": fresh,
                     "a new context": other}
            res["stored_after_redefine"] = {name: c.is_stored(SUP, target) for name, c in users.items()}
            res["redefined_rows"] = {name: c.get_array(SUP, target, processor=w["cfg"]["processor"],
                                                       progress_bar=False, multi_run_progress_bar=False)
                                     for name, c in users.items()}
        return True

    with pr.R:
        out = pr.R.main(body)
    vio, inconclusive = common_verdict(pr, out)
    if vio is None and not inconclusive:
        if out[0] == "exc":
            stage = "redefine" if "reload_chunks" in res else ("reload" if "chunks" in res else "get_iter")
            vio = Violation("EXC", f"{stage}: {sig_of_exception(out[1])}", repr(out[1])[:800])
        else:
            exp = concat_oracle(spec, defn, target)
            chunks = res["chunks"]
            got = np.concatenate([c[2] for c in chunks]) if chunks else exp[:0]
            if not P.rows_equal(got, exp):
                vio = Violation("WRONG_ROWS", "superrun rows differ from the ordered concatenation of its subruns",
                                P.describe_diff(got, exp))
            if vio is None:
                vio = check_subruns(chunks, spec, defn)
            if vio is None:
                rl = res["reload_chunks"]
                got = np.concatenate([c[2] for c in rl]) if rl else exp[:0]
                if not P.rows_equal(got, exp):
                    vio = Violation("WRONG_ROWS", "re-read superrun differs from the concatenation of its subruns "
                                                  f"(stored={res['stored_super']})", P.describe_diff(got, exp))
                else:
                    vio = check_subruns(rl, spec, defn)
                    if vio is not None:
                        vio = Violation(vio.cls, f"re-read (stored={res['stored_super']}): {vio.signature}", vio.detail)
            for k, m, chunks in res["range_reads"]:
                if vio is not None:
                    break
                part = defn[k:m + 1]
                want = concat_oracle(spec, part, target)
                got = np.concatenate([c[2] for c in chunks]) if chunks else want[:0]
                if not P.rows_equal(got, want):
                    vio = Violation("WRONG_ROWS", "stored superrun read with a time range from the start of one "
                                                  "subrun to the end of another differs from those subruns' rows",
                                    f"subruns {part}: " + P.describe_diff(got, want))
                else:
                    vio = check_subruns(chunks, spec, part)
                    if vio is not None:
                        vio = Violation(vio.cls, f"time-range read on subrun borders: {vio.signature}",
                                        f"subruns {part}: {vio.detail}")
            if vio is None and w["cfg"]["write_superruns"] and not res["stored_super"]:
                vio = Violation("NOT_STORED", "write_superruns is on but the superrun data is not stored", "")
            if vio is None and not w["cfg"]["write_superruns"] and res["stored_super"]:
                vio = Violation("STORED", "write_superruns is off but superrun data was stored", "")
            if vio is None and w["redefine"]:
                new = w["redefine"]
                new = [[x, None] for x in new] if new and isinstance(new[0], str) else new
                exp2 = concat_oracle(spec, new, target)
                via = w.get("redefine_via", "other")
                for name, st in res["stored_after_redefine"].items():
                    if st and vio is None:
                        vio = Violation("STALE", f"after redefining the superrun (through {via} context) its old "
                                                 f"stored data is still reported as available by {name}",
                                        str(w["redefine"]))
                for name, rows in res["redefined_rows"].items():
                    if vio is None and not P.rows_equal(rows, exp2):
                        vio = Violation("STALE", f"redefined superrun (through {via} context): {name} returns rows "
                                                 f"of the old definition / wrong rows", P.describe_diff(rows, exp2))
            if vio is None and res["alive"]:
                vio = Violation("THREADS_ALIVE", "threads alive after the request", res["alive"])
    r = base_result(pr, w, vio, inconclusive, strategy=strategy,
                    extra_probes={f"n_subruns_{len(rids)}": 1, "write_superruns": int(w["cfg"]["write_superruns"]),
                                  "redefinitions": int(bool(w["redefine"])),
                                  "subruns_by_time_range": sum(1 for _, g in defn if g is not None),
                                  "redefined_same_runs_other_range": int(bool(w["redefine"]) and not isinstance(
                                      w["redefine"][0], str) and [x for x, _ in w["redefine"]] == rids),
                                  "run_ids_not_in_lexical_order": int(list(rids) != sorted(rids)),
                                  "two_input_superrun_level": int(any(n["kind"] == "merge2" for n in spec["nodes"])),
                                  "chunks_spanning_subruns": sum(1 for c in res.get("chunks", []) if c[3] and len(c[3]) > 1),
                                  "single_thread_runs": int(w["cfg"]["processor"] == "single_thread")})
    r["sample"] = {"runs": {rid: w["spec"]["nodes"][0]["runs"][rid]["bounds"] for rid in rids},
                   "n_rows": {rid: len(w["spec"]["nodes"][0]["runs"][rid]["rows"]) for rid in rids},
                   "target": target, "cfg": w["cfg"], "redefine": w["redefine"], "defn": defn,
                   "nodes": [{k: v for k, v in n.items() if k not in ("rows", "runs")} for n in spec["nodes"]],
                   "out_chunks": [(c[0], c[1], len(c[2]), c[3]) for c in res.get("chunks", [])][:6]}
    return r


def run_one(seed, tier, replay=None, lenient=False):
    if replay is not None:
        return execute(replay["workload"], seed, strategy=replay.get("strategy", "random"),
                       forced=replay["schedule"], strict=not lenient)
    w = gen(seed, tier)
    spec = S.swarm_strategy_spec(rng_for(seed, "strategy"))
    return execute(w, seed, strategy=spec)


def warm():
    for s in range(3):
        run_one(s, "quick")
