"""C15 - loading many runs in parallel equals loading them one by one.

multi_run's pool is a SimExecutor; its worker threads all use ONE shared Context and are
pre-empted at LINE granularity inside strax/context.py (and multi_run itself) through
sys.settrace: each line event is a potential yield point, taken with a per-run probability
q.  Oracle: per-run whole-run oracles concatenated in run-id order with the run_id column;
a failing run raises its own exception, or is omitted under ignore_errors while the others
are unchanged; nothing else may come out of the Context's bookkeeping (KeyError on _temp_*,
'dictionary changed size during iteration' ...).
"""
import sys

import numpy as np

import strax

from .. import gen as G
from .. import plugins as P
from .. import sched as S
from ..core import Violation, rng_for
from ..pipeline import DATA_DIR, PipelineRun, base_result, common_verdict, sig_of_exception
from . import c01, c14

PROPERTY = "C15"
LEVEL = "exploration"
QUICK_RUNS = 6000
THOROUGH_RUNS = 80_000
QUICK_BUDGET_S = 100
BATCH = 20
SMOKE_RUNS = 5
DETERMINISM_RUNS = 30
COMPONENTS = dict(c01.COMPONENTS, real=c01.COMPONENTS["real"] + ["strax.utils.multi_run",
                  "Context plugin registry / fixed plugin cache / temporary merge plugin under concurrent use"],
                  simulated=c01.COMPONENTS["simulated"] + ["line-level pre-emption of worker threads inside "
                                                           "strax/context.py (sys.settrace)"])
RULE = ("one evaluation = one seeded multi-run call with line-level pre-emption; non-trivial = at least two worker "
        "threads and one multi-candidate scheduling decision; distinct = different hash of (workload, schedule trace)")


def gen(seed, tier):
    r = rng_for(seed, "workload")
    big = tier == "thorough"
    n_runs = r.randint(2, 8 if big else 6)
    runs = {}
    for i in range(n_runs):
        rows = G.gen_rows(r, r.randint(0, 5), disjoint=True, t0=r.choice([0, 10]))
        s = 0
        e = max([x[1] for x in rows], default=1) + 2
        runs[str(i)] = {"rows": rows, "bounds": sorted(set(G.gen_bounds(r, rows, s, e, max_chunks=3, zero_dur_p=0)))}
    save = r.choice(["ALWAYS", "NEVER"])
    nodes = [{"name": "sa", "kind": "source", "rows": runs["0"]["rows"], "bounds": runs["0"]["bounds"], "runs": runs,
              "opts": {"save_when": save, "rechunk_on_save": False}},
             {"name": "n0", "kind": "rowmap", "dep": "sa", "a": 2, "b": 1,
              "opts": {"save_when": save, "rechunk_on_save": False, "infer": r.random() < 0.5}},
             {"name": "n1", "kind": "rowmap", "dep": "n0", "a": 1, "b": 3,
              "opts": {"save_when": save, "rechunk_on_save": False, "infer": r.random() < 0.5}}]
    targets = r.choice([["n1"], ["n0"], ["n0", "n1"], ["sa", "n1"], ["sa", "n0", "n1"]])
    fail = None
    if r.random() < 0.35:
        # 1 .. n-1 failing runs (at least one healthy run is left)
        k = min(n_runs - 1, r.choice([1, 1, 2, 3, n_runs - 1]))
        fail = {"runs": sorted(r.sample([str(i) for i in range(n_runs)], k)), "ignore_errors": r.random() < 0.6}
    return {"spec": {"run_id": "0", "nodes": nodes}, "target": targets[0], "targets": targets,
            "runs": sorted(runs), "order": r.sample(sorted(runs), n_runs),
            "workers": r.randint(1, 8 if big else 7), "warm": r.random() < 0.4,
            "api": r.choice(["get_array", "get_array", "get_df", "make"]),
            "fail": fail, "q": r.choice([0.01, 0.05, 0.2]),
            "cfg": {"processor": r.choice(["single_thread", "single_thread", "threaded_mailbox"]), "max_workers": 1,
                    "allow_lazy": True, "allow_rechunk": True, "max_messages": 4},
            "stored": {}, "fs_order": 0, "est_steps": 3000}


def shrink(w):
    if len(w["runs"]) > 2:
        keep = w["order"][:-1]
        if not w["fail"] or all(x in keep for x in failing(w)):
            yield dict(w, order=keep, runs=sorted(keep))
    if len(w["targets"]) > 1:
        yield dict(w, targets=w["targets"][:1], target=w["targets"][0])
    if w["workers"] > 2:
        yield dict(w, workers=2)
    if w["fail"]:
        yield dict(w, fail=None)


def failing(w):
    f = w.get("fail")
    if not f:
        return []
    return list(f["runs"]) if "runs" in f else [f["run"]]


def make_tracer(sim, q, rng):
    files = (strax.context.__file__,)
    utils_file = strax.utils.__file__

    def local(frame, event, arg):
        if event == "line":
            sim.counters["traced_lines"] += 1
            if rng.random() < q and not sim.aborting:
                sim.counters["line_preemptions"] += 1
                sim.yield_point("line")
        return local

    def tracer(frame, event, arg):
        if event == "call":
            fn = frame.f_code.co_filename
            if fn in files or (fn == utils_file and frame.f_code.co_name == "multi_run"):
                return local
        return None
    return tracer


def expected(w, spec, targets):
    parts = []
    for rid in sorted(w["order"]):
        if rid in failing(w):
            continue
        orc = P.oracle(c14.spec_for_run(spec, rid))
        base = orc[targets[0]]
        cols = {"run_id": np.array([rid] * len(base)), "time": base["time"], "endtime": base["endtime"]}
        for d in targets:
            cols[f"v_{d}"] = orc[d][f"v_{d}"]
        parts.append(cols)
    if not parts:
        return None
    return {k: np.concatenate([p[k] for p in parts]) for k in parts[0]}


def execute(w, seed, strategy="random", forced=None, strict=False):
    pr = PipelineRun(w, seed, strategy=strategy, forced=forced, strict=strict, max_steps=600_000)
    spec, targets = w["spec"], w["targets"]
    res = {}
    prng = rng_for(seed, "preempt")

    def body():
        pr.build()
        if w["fail"]:
            pr.classes["n0"].H_FAIL_RUN = tuple(failing(w))
        ctx = pr.context()
        if w["warm"]:
            for t in targets:
                ctx.key_for("0", t)
        sim = pr.R.sim
        tracer = make_tracer(sim, w["q"], prng)
        sim.worker_init = lambda: sys.settrace(tracer)
        sim.worker_exit = lambda: sys.settrace(None)
        tg = targets if len(targets) > 1 else targets[0]
        kw = dict(max_workers=w["workers"], processor=w["cfg"]["processor"], progress_bar=False,
                  multi_run_progress_bar=False)
        if w["fail"] and w["fail"]["ignore_errors"]:
            kw["ignore_errors"] = True
        try:
            if w["api"] == "make":
                ctx.make(tuple(w["order"]), tg, **kw)
                res["rows"] = None
            elif w["api"] == "get_df":
                res["rows"] = ctx.get_df(tuple(w["order"]), tg, **kw)
            else:
                res["rows"] = ctx.get_array(tuple(w["order"]), tg, **kw)
            res["outcome"] = "returned"
        except S.SimAbort:
            raise
        except Exception as e:
            res["outcome"] = "raised"
            res["exc"] = e
        finally:
            sim.worker_init = sim.worker_exit = None
        res["alive"] = [t.name for t in sim.live_threads()]
        res["temp_left"] = [k for k in ctx._plugin_class_registry if k.startswith("_temp")] \
            if hasattr(ctx, "_plugin_class_registry") else []
        if w["api"] == "make" and res["outcome"] == "returned":
            fresh = pr.context(extra={"forbid_creation_of": "*"})
            st = {}
            for rid in w["order"]:
                for t in targets:
                    st[(rid, t)] = fresh.is_stored(rid, t)
            res["stored"] = st
        return True

    with pr.R:
        out = pr.R.main(body)
    sys.settrace(None)
    vio, inconclusive = common_verdict(pr, out)
    if vio is None and not inconclusive:
        if out[0] == "exc":
            vio = Violation("EXC", f"harness phase: {sig_of_exception(out[1])}", repr(out[1])[:600])
        else:
            if res.get("exc") is not None and isinstance(res["exc"], S.HarnessError):
                raise res["exc"]
            fail = w["fail"]
            if fail and not fail["ignore_errors"]:
                if res["outcome"] != "raised":
                    vio = Violation("NO_ERROR", "a failing run did not raise although errors are not ignored", str(fail))
                elif not isinstance(res["exc"], P.InjectedFault):
                    vio = Violation("WRONG_ERROR", f"failing run: caller got {sig_of_exception(res['exc'])} instead "
                                                   f"of the run's own exception", repr(res["exc"])[:600])
            elif res["outcome"] == "raised":
                vio = Violation("EXC", f"multi-run call raised {sig_of_exception(res['exc'])}", repr(res["exc"])[:800])
            elif w["api"] != "make":
                exp = expected(w, spec, targets)
                got = res["rows"]
                if exp is None:
                    if got is not None and len(got):
                        vio = Violation("WRONG_ROWS", "rows returned although every run failed", "")
                else:
                    names = list(got.columns) if w["api"] == "get_df" else list(got.dtype.names)
                    if sorted(names) != sorted(exp):
                        vio = Violation("WRONG_COLUMNS", "columns differ from per-run results + run_id", (names, list(exp)))
                    else:
                        for c in exp:
                            g = np.asarray(got[c])
                            e = exp[c]
                            if c == "run_id":
                                g = np.array([x.decode() if isinstance(x, bytes) else str(x) for x in g])
                            if len(g) != len(e) or not np.array_equal(g, e):
                                vio = Violation("WRONG_ROWS", "multi-run result differs from the per-run results "
                                                              "concatenated in run-id order",
                                                f"column {c}: got {g[:10].tolist()} expected {e[:10].tolist()} "
                                                f"({len(g)} vs {len(e)})")
                                break
            elif spec["nodes"][0]["opts"]["save_when"] == "ALWAYS":
                missing = [k for k, v in res.get("stored", {}).items()
                           if not v and k[0] not in failing(w)]
                if missing:
                    vio = Violation("NOT_STORED", "make over several runs returned but data is not stored", str(missing[:5]))
            if vio is None and res["alive"]:
                vio = Violation("THREADS_ALIVE", "threads alive after the multi-run call", res["alive"])
            if vio is None and res.get("temp_left"):
                vio = Violation("TEMP_LEFT", "temporary merge plugin left in the registry", res["temp_left"])
    r = base_result(pr, w, vio, inconclusive, strategy=strategy,
                    extra_probes={"n_runs": len(w["order"]), "workers": w["workers"],
                                  "multi_target": int(len(targets) > 1), f"api_{w['api']}": 1,
                                  "failing_run": int(bool(w["fail"])), "failing_runs_ge_2": int(len(failing(w)) >= 2),
                                  "failing_runs_ge_2x_workers": int(len(failing(w)) >= 2 * w["workers"]),
                                  "inferred_dtype_plugins": sum(1 for n in spec["nodes"] if n["opts"].get("infer")), "warm_cache": int(w["warm"]),
                                  "traced_lines": pr.R.sim.counters.get("traced_lines", 0),
                                  "line_preemptions": pr.R.sim.counters.get("line_preemptions", 0)})
    r["sample"] = {"order": w["order"], "targets": targets, "workers": w["workers"], "api": w["api"],
                   "fail": w["fail"], "q": w["q"], "warm": w["warm"], "processor": w["cfg"]["processor"],
                   "save": spec["nodes"][0]["opts"]["save_when"], "outcome": res.get("outcome"),
                   "traced_lines": pr.R.sim.counters.get("traced_lines", 0),
                   "exception": sig_of_exception(res["exc"]) if res.get("exc") is not None else None}
    return r


def run_one(seed, tier, replay=None, lenient=False):
    if replay is not None:
        return execute(replay["workload"], seed, strategy=replay.get("strategy", "random"),
                       forced=replay["schedule"], strict=not lenient)
    w = gen(seed, tier)
    spec = S.swarm_strategy_spec(rng_for(seed, "strategy"), starve_names=("pool", "main"))
    return execute(w, seed, strategy=spec)


def warm():
    for s in range(2):
        run_one(s, "quick")
