"""Namespace for dynamically created harness plugin classes (so that they pickle by reference)."""
