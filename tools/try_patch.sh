#!/bin/bash
# usage: tools/try_patch.sh <patch.diff> <check> [more checks] : run checks against a scratch COPY of /repo/strax with the
# patch applied (via DST_STRAX_ROOT), leaving /repo untouched (so background soaks on /repo are not disturbed).
# The copy always lives at the same path and keeps file times, so the numba cache of unpatched files stays valid.
p=$(realpath $1); shift
d=/tmp/mut/scratch_tp; rm -rf $d; mkdir -p $d; cp -rp /repo/strax $d/strax; find $d -name __pycache__ -prune -exec rm -rf {} +
(cd $d && patch -p1 -s < $p) || { echo "PATCH FAILED"; rm -rf $d; exit 2; }
for chk in "$@"; do
  cd /verif && DST_STRAX_ROOT=$d DST_OUT_DIR=$d/out timeout 1200 ./check $chk --budget-s ${BUDGET:-80} 2>&1 | grep -E "^VIOLATION|^violation:|HARNESS|\[dst\] C..:" | cut -c1-260 | head -${LINES_MAX:-4}
done
rm -rf $d
