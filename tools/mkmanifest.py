#!/venv/bin/python
"""Regenerate /verif/MANIFEST.json from the table below (kept valid at all times)."""
import json, os
HERE = os.path.dirname(os.path.dirname(os.path.abspath(__file__)))

TECH = "deterministic simulation with fault injection: seeded schedule/fault search over the real strax code"
CHECKS = {
    "C05": dict(
        category="exploration", design_ref="DESIGN.md §5 C05",
        text=("Seeded search over thread schedules (random / sticky / PCT / starvation strategies) of the real "
              "strax.mailbox code under a baton-passing scheduler that owns every lock, condition, thread, future "
              "and timeout: 1-4 subscribers, 0-12 messages, capacities 1-4, lazy/eager with driver masks, futures "
              "completed by concurrent workers, explicit out-of-order numbering, late-started readers and "
              "multi-output dividers. Oracle: per-subscriber sequence equals the sent sequence, termination, no "
              "progress-by-timeout, and the capacity / read-pointer / garbage-collection invariants after every "
              "scheduler step. Sampling, not enumeration: right level for an unbounded schedule space; PCT gives "
              "a probabilistic guarantee for bugs of small pre-emption depth."),
        note=("Trusted: the scheduler shim (dst/sched.py) models RLock/Condition/Thread/Future semantics faithfully; "
              "pre-emption only at synchronisation points (all Mailbox state is accessed under its lock)."),
    ),
}
NA = {
    "C07": "pure function of in-memory arrays (Chunk/Rechunker value semantics): no schedule, clock, I/O or fault to simulate; its code runs for real inside the C01/C03/C14/C16 simulations",
    "C17": "pure numba kernels (interval primitives): functions of their arguments only, nothing for a simulator to own",
    "C18": "pure numba kernels (hit finding / data reduction): functions of their arguments only",
    "C19": "pure numba kernels (peak building / merging / splitting): functions of their arguments only",
}
PENDING = "not claimed yet: simulation check under construction in this session (see DESIGN.md §5)"
ALL = [f"C{i:02d}" for i in range(1, 20)]

def main():
    checks = []
    for pid in ALL:
        if pid not in CHECKS:
            continue
        c = CHECKS[pid]
        checks.append({
            "property_id": pid,
            "quick_cmd": f"./check {pid} --tier quick",
            "thorough_cmd": f"./check {pid} --tier thorough",
            "evidence_file": f"/verif/evidence/{pid}.json",
            "replay_cmd_template": f"./check {pid} --replay {{path}}",
            "engine": "dst",
            "level_claimed": {"category": c["category"], "text": c["text"], "design_ref": c["design_ref"]},
            "level_note": c["note"],
            "technique": c.get("technique", TECH),
        })
    na = [{"property_id": p, "reason": NA.get(p, PENDING)} for p in ALL if p not in CHECKS]
    m = {
        "version": 1,
        "setup_cmd": "./setup.sh",
        "hooks": {
            "guard": "STRAX_DST_HOOKS",
            "enable": "no source hook is needed: the simulator installs itself by assigning module-level names of strax (threading, time, os, open, concurrent.futures ...) at run time; the guard name is reserved and unused",
            "baseline_off_cmd": "cd /repo && /venv/bin/python -m pytest -ra -q -p no:cacheprovider --timeout=900 --continue-on-collection-errors",
            "source_commits": [],
            "add_only": True,
        },
        "engines": [{
            "name": "dst", "path": "/verif/dst",
            "serves_properties": sorted(CHECKS),
            "kind_free_text": "deterministic simulator: seeded baton-passing thread scheduler, discrete-event clock, in-memory file system with fault/crash injection, sim executors/futures; campaign runner with replay files and minimisation",
        }],
        "checks": checks,
        "not_applicable": na,
        "notes": "All checks: ./check <ID> --tier quick|thorough [--seed N]; VERIF_SEED / VERIF_TIER honoured. Exit 0 ok, 1 VIOLATION, 2 HARNESS-ERROR. Known findings: /verif/known_findings.json.",
    }
    with open(os.path.join(HERE, "MANIFEST.json"), "w") as f:
        json.dump(m, f, indent=1)
    print("wrote MANIFEST.json:", len(checks), "checks,", len(na), "not applicable")

if __name__ == "__main__":
    main()
