#!/venv/bin/python
"""Regenerate /verif/MANIFEST.json from the table below (kept valid at all times)."""
import json, os
HERE = os.path.dirname(os.path.dirname(os.path.abspath(__file__)))

TECH = "deterministic simulation with fault injection: seeded schedule/fault search over the real strax code"
PIPE_NOTE = ("Trusted: the simulator shims (dst/sched.py, dst/shims.py, dst/simfs.py) model threads, locks, conditions, "
             "futures, clock and file operations faithfully; the independent numpy oracle (dst/plugins.py); harness "
             "plugin kinds stand for real plugins. Pre-emption at synchronisation points, futures, sleeps and every "
             "SimFS operation only. Process pools (allow_multiprocess variants) are a stub: tasks run on simulator "
             "threads behind a pickle round trip, so real inter-process parallelism is not exercised.")
CHECKS = {
    "C01": dict(
        category="exploration", design_ref="DESIGN.md §5 C01",
        text=("Seeded search over generated plugin graphs (row-wise, filter, same-kind merge, multi-output, loop, "
              "overlap-window, down-chunking, exhaust, real CutPlugin and MergeOnlyPlugin subclasses), independent "
              "law-abiding chunkings per source (empty and zero-duration chunks), processor / max_workers / lazy / "
              "capacity / rechunk / chunk-size / multiprocessing-stub swarm and "
              "pre-stored subsets in unrelated chunkings; the whole Context.get_iter call runs for real on an "
              "in-memory file system under a seeded thread schedule. Oracle: rows equal an independent whole-run "
              "numpy evaluation, chunks tile the run and contain their rows, no hang / lost wake-up / exception, "
              "and a fresh context re-reads every stored type correctly."),
        note=PIPE_NOTE),
    "C02": dict(
        category="exploration", design_ref="DESIGN.md §5 C02",
        text=("Seeded operation histories (set_config of tracked / untracked / shared / child options of a strax child "
              "plugin, re-registration "
              "with another default / version / class name / dependency / compressor, new_context, make, "
              "get_array, a second live context on the same directory, restart with only the simulated disk "
              "surviving, fuzzy contexts) against the real Context and file storage on SimFS. After every "
              "operation: rows equal an independent numpy evaluation under the current settings; the live "
              "context's keys equal a brand-new context's; keys are equal exactly when a plain-data reference "
              "lineage is equal; fuzzy acceptance equals the reference filter and writes nothing; sampled "
              "histories are re-executed in fresh interpreters with other hash seeds and permuted option order."),
        note=("Trusted: the reference lineage model in dst/checks/c02.py and the numpy oracle; simulator shims. The "
              "history dimension is what is explored; thread schedules matter little here.")),
    "C03": dict(
        category="exploration", design_ref="DESIGN.md §5 C03",
        text=("Seeded save-then-load round trips through the real Saver / FileSaver / strax.io / Rechunker / "
              "loader on SimFS: four structured dtypes (endtime, dt*length, array-valued, titled fields), "
              "law-abiding chunk sequences incl. empty and zero-duration chunks and overlapping rows, all four "
              "compressors, rechunk on/off with targets from one row up, serial or simulated thread-pool saving "
              "and loading (completion order decided by the scheduler). Oracle: bit-identical rows, same overall "
              "range, contiguous boundaries equal to / subset of the written ones, metadata fields agree with "
              "the files, no leftovers. Fault-free configuration of the C04 machinery."),
        note="Trusted: SimFS models open/write/rename/listdir faithfully; simulator shims for the pool."),
    "C04": dict(
        category="fault_enumeration", design_ref="DESIGN.md §5 C04",
        text=("Per seeded workload (make of a generated graph on SimFS on top of an empty / partial / broken / "
              "crashed prior directory state; both processors; serial and pool saving; rechunking) the fault-free "
              "execution is recorded and EVERY mutating file-system operation of it is re-executed with each of "
              "EIO, process death before, process death after, and torn write + death (writes). After each: "
              "fresh Context, is_stored must not raise, everything stored loads completely and equals the "
              "oracle, the identical make succeeds without cleanup, every type is then obtainable and correct, "
              "and an I/O error on a saver's file is never a normal return. Exhaustive over fault positions of "
              "each sampled execution; workloads sampled."),
        note=("Trusted: crash model = process death with completed operations durable (strax never syncs); SimFS "
              "write model (truncate at open, content at close, rmtree non-atomic, rename atomic); determinism "
              "of the simulator, which makes operation k the same operation in the faulty re-execution.")),
    "C10": dict(
        category="exploration", design_ref="DESIGN.md §5 C10",
        text=("Stored layouts on SimFS (every type in its own chunking) and requests with time_range / "
              "seconds_range / time_within, fully_contained / touching, selection strings / lists / callables, "
              "keep / drop columns, one or several same-kind targets, both processors; endpoints on, just inside "
              "and outside row and chunk edges and beyond the run. Oracle: the same predicate and projection in "
              "plain numpy on the whole-run rows; a range overlapping no chunk must raise; storage digest unchanged."),
        note=PIPE_NOTE),
    "C11": dict(
        category="exploration", design_ref="DESIGN.md §5 C11",
        text=("Generated graphs with per-output save policies x stored subsets in two front-ends (readonly / "
              "take_only / exclude) x targets, save=, request modifiers (selection, kept / dropped columns, time range, fuzzy, "
              "allow_incomplete) and forbid_creation_of; a small reference planner written from the property "
              "predicts what must run, load, be saved where, and fail; observed through compute-call logs of the "
              "harness plugins (0 calls <=> must not run; each input row delivered once), rows, exception type "
              "and the directory diff of both front-ends re-read by a fresh context."),
        note=PIPE_NOTE + " The reference planner (dst/checks/c11.py) is part of the trusted base."),
    "C14": dict(
        category="exploration", design_ref="DESIGN.md §5 C14",
        text=("1-4 generated subruns with own chunk layouts and gaps of 0 / 1 / 5000 / 2e9 ns, run metadata and "
              "define_run on SimFS, chains whose allow_superrun level starts at depth 0-2, write_superruns "
              "on/off, rechunking across subrun borders, both processors, chunk-wise re-read from a fresh context, "
              "time-range reads of the stored superrun starting / ending exactly on subrun borders, redefinition "
              "through the making or another context followed by re-use of every earlier context. Oracle: ordered "
              "concatenation of per-subrun oracles; chunk.subruns spans (yielded, stored and range-read chunks) tile "
              "every subrun exactly once, lie inside their chunk and contain the rows they claim; redefinition makes "
              "old superrun data unavailable for every context and returns the new concatenation."),
        note=PIPE_NOTE),
    "C15": dict(
        category="exploration", design_ref="DESIGN.md §5 C15",
        text=("multi_run's pool is a simulated executor; 2-8 runs, 1-8 workers, one or several same-kind targets, "
              "cold / warm plugin cache, plugins with declared or inferred dtype / data kind, with and without "
              "storage, get_array / get_df / make, 1..n-1 runs made to fail with and without ignore_errors. Worker "
              "threads share ONE Context and are pre-empted at line granularity inside strax/context.py via "
              "sys.settrace with seeded probability; the iteration order of strax's sets of data-type names and of "
              "the futures returned by wait() is seeded too. Oracle: per-run oracles in run-id order with the "
              "run_id column; a failing run's own exception or the omission of exactly the failing runs; no "
              "exception from Context bookkeeping; no temporary plugin left."),
        note=PIPE_NOTE + " Line-level pre-emption only inside strax/context.py and multi_run."),
    "C16": dict(
        category="exploration", design_ref="DESIGN.md §5 C16",
        text=("Seeded transformations of stored data on SimFS: strax.rechunker (any compressor, target size, "
              "serial / thread / process-stub, in place via TemporaryDirectory+move or to a new location), "
              "copy_to_frontend with recompression and rechunking to one chosen or to all of 1-3 further "
              "frontends (some already holding the data), rechunk_on_load under both processors and a "
              "pool, per-chunk make over random groupings + merge_per_chunk_storage. A third of the rechunker and "
              "a quarter of the copy runs get one injected EIO / ENOSPC / short write on the n-th makedirs / open / "
              "write / rename of the new copy, or a failing read of the source. Oracle: same rows, C03 "
              "metadata consistency for every destination incl. new compressor / target size, source digest "
              "unchanged unless replaced, no temporary leftovers; under a fault a normal return still has to pass "
              "all of that, a raised error has to leave the source bit-identical, and a failed copy / rewrite "
              "must leave nothing wrong visible as complete in a destination."),
        note="Trusted: SimFS incl. TemporaryDirectory / move; process pools are a pickle-boundary stub on sim threads."),
    "C06": dict(
        category="exploration", design_ref="DESIGN.md §5 C06",
        text=("One injected failure per simulated run - plugin or pool-worker exception at a chosen row/chunk, "
              "EIO/ENOSPC on a chosen operation of a saver, read error / corrupted read in a loader, a stalled "
              "online source (simulated clock), or a consumer closing the iterator after k chunks - in generated "
              "graphs under seeded schedules, so that the kill races with sends, closes, capacity and fetch-gate "
              "waits. Oracle: the caller gets the injected exception (not a timeout, not a secondary exception, "
              "not a normal return), all sim threads have finished when the call returns, no progress-by-timeout."),
        note=PIPE_NOTE),
    "C08": dict(
        category="exploration", design_ref="DESIGN.md §5 C08",
        text=("A recorder plugin with 1-4 dependencies of 1-3 kinds (computed from independently chunked sources "
              "or loaded in unrelated chunkings) runs inside the simulated pipeline; invariants on the recorded "
              "arguments of every compute call: adjacency from run start, rows inside the interval, every input "
              "row exactly once and in order, output equal to the whole-run oracle; stream fault: one input ends "
              "early, a default-saved plugin must raise rather than drop rows. The schedule adds the delivery "
              "path and replayability, not oracle strength (stated in DESIGN.md)."),
        note=PIPE_NOTE),
    "C09": dict(
        category="exploration", design_ref="DESIGN.md §5 C09",
        text=("The C01 engine pinned to graphs with single- and multi-output OverlapWindowPlugins (per-row and "
              "per-group window-local computations, windows symmetric/asymmetric/zero, many chunks shorter than "
              "the window, rows longer than the window, empty and zero-duration chunks); whole-run oracle, "
              "contiguity, and identical chunking of the two outputs of the multi-output plugin."),
        note=PIPE_NOTE),
    "C12": dict(
        category="exploration", design_ref="DESIGN.md §5 C12",
        text=("Fault = a Byzantine stage: one plugin of a generated graph returns, at a chosen chunk, a wrong "
              "dtype (bare or wrapped in a Chunk), rows outside its chunk, a chunk labelled with another data "
              "type, a gap or overlap in the target stream, or a non-dict multi-output result; both processors, "
              "seeded schedules, SimFS storage. Oracle: the call raises, and afterwards a fresh context finds "
              "nothing stored-as-valid that does not load to the correct rows."),
        note=PIPE_NOTE),
    "C13": dict(
        category="exploration", design_ref="DESIGN.md §5 C13",
        text=("The consumer (sim thread 0) pulls k chunks and parks; the scheduler runs the pipeline to "
              "quiescence; Q = source chunks produced. The same seed with a run twice as long must reach the "
              "same Q < N (relational oracle, no hand-derived bound); eager: len(mailbox) <= capacity after every "
              "scheduler step; lazy: at every source advance a driving reader waits for a missing message, and "
              "exactly k source chunks exist once the consumer has taken k (demand is passed on by every stage); "
              "then the consumer drains (rows must be right) or closes (production must stop: at most one further "
              "source chunk per stage, no thread left)."),
        note=PIPE_NOTE),
    "C05": dict(
        category="exploration", design_ref="DESIGN.md §5 C05",
        text=("Seeded search over thread schedules (random / sticky / PCT / starvation strategies) of the real "
              "strax.mailbox code under a baton-passing scheduler that owns every lock, condition, thread, future "
              "and timeout: 1-4 subscribers, 0-12 messages, capacities 1-4, lazy/eager with driver masks, futures "
              "completed by concurrent workers, explicit out-of-order numbering, late-started readers and "
              "multi-output dividers (also with a mailbox left out of `outputs` that has its own sender). Oracle: per-subscriber sequence equals the sent sequence, termination, no "
              "progress-by-timeout, and the capacity / read-pointer / garbage-collection invariants after every "
              "scheduler step. Sampling, not enumeration: right level for an unbounded schedule space; PCT gives "
              "a probabilistic guarantee for bugs of small pre-emption depth."),
        note=("Trusted: the scheduler shim (dst/sched.py) models RLock/Condition/Thread/Future semantics faithfully; "
              "pre-emption only at synchronisation points (all Mailbox state is accessed under its lock)."),
    ),
}
NA = {
    "C07": "pure function of in-memory arrays (Chunk/Rechunker value semantics): no schedule, clock, I/O or fault to simulate; its code runs for real inside the C01/C03/C14/C16 simulations",
    "C17": "pure numba kernels (interval primitives): functions of their arguments only, nothing for a simulator to own",
    "C18": "pure numba kernels (hit finding / data reduction): functions of their arguments only",
    "C19": "pure numba kernels (peak building / merging / splitting): functions of their arguments only",
}
PENDING = "not claimed yet: simulation check under construction in this session (see DESIGN.md §5)"
ALL = [f"C{i:02d}" for i in range(1, 20)]

def main():
    checks = []
    for pid in ALL:
        if pid not in CHECKS:
            continue
        c = CHECKS[pid]
        checks.append({
            "property_id": pid,
            "quick_cmd": f"./check {pid} --tier quick",
            "thorough_cmd": f"./check {pid} --tier thorough",
            "evidence_file": f"/verif/evidence/{pid}.json",
            "replay_cmd_template": f"./check {pid} --replay {{path}}",
            "engine": "dst",
            "level_claimed": {"category": c["category"], "text": c["text"], "design_ref": c["design_ref"]},
            "level_note": c["note"],
            "technique": c.get("technique", TECH),
        })
    na = [{"property_id": p, "reason": NA.get(p, PENDING)} for p in ALL if p not in CHECKS]
    m = {
        "version": 1,
        "setup_cmd": "./setup.sh",
        "hooks": {
            "guard": "STRAX_DST_HOOKS",
            "enable": "no source hook is needed: the simulator installs itself by assigning module-level names of strax (threading, time, os, open, concurrent.futures ...) at run time; the guard name is reserved and unused",
            "baseline_off_cmd": "cd /repo && /venv/bin/python -m pytest -ra -q -p no:cacheprovider --timeout=900 --continue-on-collection-errors",
            "source_commits": [],
            "add_only": True,
        },
        "engines": [{
            "name": "dst", "path": "/verif/dst",
            "serves_properties": sorted(CHECKS),
            "kind_free_text": "deterministic simulator: seeded baton-passing thread scheduler, discrete-event clock, in-memory file system with fault/crash injection, sim executors/futures; campaign runner with replay files and minimisation",
        }],
        "checks": checks,
        "not_applicable": na,
        "notes": "All checks: ./check <ID> --tier quick|thorough [--seed N]; VERIF_SEED / VERIF_TIER honoured. Exit 0 ok, 1 VIOLATION, 2 HARNESS-ERROR. Known findings: /verif/known_findings.json.",
    }
    with open(os.path.join(HERE, "MANIFEST.json"), "w") as f:
        json.dump(m, f, indent=1)
    print("wrote MANIFEST.json:", len(checks), "checks,", len(na), "not applicable")

if __name__ == "__main__":
    main()
