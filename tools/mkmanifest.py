#!/venv/bin/python
"""Regenerate /verif/MANIFEST.json from the table below (kept valid at all times)."""
import json, os
HERE = os.path.dirname(os.path.dirname(os.path.abspath(__file__)))

TECH = "deterministic simulation with fault injection: seeded schedule/fault search over the real strax code"
PIPE_NOTE = ("Trusted: the simulator shims (dst/sched.py, dst/shims.py, dst/simfs.py) model threads, locks, conditions, "
             "futures, clock and file operations faithfully; the independent numpy oracle (dst/plugins.py); harness "
             "plugin kinds stand for real plugins. Pre-emption at synchronisation points, futures, sleeps and every "
             "SimFS operation only. Process pools are not simulated in this check.")
CHECKS = {
    "C01": dict(
        category="exploration", design_ref="DESIGN.md §5 C01",
        text=("Seeded search over generated plugin graphs (row-wise, filter, same-kind merge, multi-output, loop, "
              "overlap-window, down-chunking, exhaust), independent law-abiding chunkings per source (empty and "
              "zero-duration chunks), processor / max_workers / lazy / capacity / rechunk / chunk-size swarm and "
              "pre-stored subsets in unrelated chunkings; the whole Context.get_iter call runs for real on an "
              "in-memory file system under a seeded thread schedule. Oracle: rows equal an independent whole-run "
              "numpy evaluation, chunks tile the run and contain their rows, no hang / lost wake-up / exception, "
              "and a fresh context re-reads every stored type correctly."),
        note=PIPE_NOTE),
    "C06": dict(
        category="exploration", design_ref="DESIGN.md §5 C06",
        text=("One injected failure per simulated run - plugin or pool-worker exception at a chosen row/chunk, "
              "EIO/ENOSPC on a chosen operation of a saver, read error / corrupted read in a loader, a stalled "
              "online source (simulated clock), or a consumer closing the iterator after k chunks - in generated "
              "graphs under seeded schedules, so that the kill races with sends, closes, capacity and fetch-gate "
              "waits. Oracle: the caller gets the injected exception (not a timeout, not a secondary exception, "
              "not a normal return), all sim threads have finished when the call returns, no progress-by-timeout."),
        note=PIPE_NOTE),
    "C08": dict(
        category="exploration", design_ref="DESIGN.md §5 C08",
        text=("A recorder plugin with 1-4 dependencies of 1-3 kinds (computed from independently chunked sources "
              "or loaded in unrelated chunkings) runs inside the simulated pipeline; invariants on the recorded "
              "arguments of every compute call: adjacency from run start, rows inside the interval, every input "
              "row exactly once and in order, output equal to the whole-run oracle; stream fault: one input ends "
              "early, a default-saved plugin must raise rather than drop rows. The schedule adds the delivery "
              "path and replayability, not oracle strength (stated in DESIGN.md)."),
        note=PIPE_NOTE),
    "C09": dict(
        category="exploration", design_ref="DESIGN.md §5 C09",
        text=("The C01 engine pinned to graphs with single- and multi-output OverlapWindowPlugins (per-row and "
              "per-group window-local computations, windows symmetric/asymmetric/zero, many chunks shorter than "
              "the window, rows longer than the window, empty and zero-duration chunks); whole-run oracle, "
              "contiguity, and identical chunking of the two outputs of the multi-output plugin."),
        note=PIPE_NOTE),
    "C12": dict(
        category="exploration", design_ref="DESIGN.md §5 C12",
        text=("Fault = a Byzantine stage: one plugin of a generated graph returns, at a chosen chunk, a wrong "
              "dtype (bare or wrapped in a Chunk), rows outside its chunk, a chunk labelled with another data "
              "type, a gap or overlap in the target stream, or a non-dict multi-output result; both processors, "
              "seeded schedules, SimFS storage. Oracle: the call raises, and afterwards a fresh context finds "
              "nothing stored-as-valid that does not load to the correct rows."),
        note=PIPE_NOTE),
    "C13": dict(
        category="exploration", design_ref="DESIGN.md §5 C13",
        text=("The consumer (sim thread 0) pulls k chunks and parks; the scheduler runs the pipeline to "
              "quiescence; Q = source chunks produced. The same seed with a run twice as long must reach the "
              "same Q < N (relational oracle, no hand-derived bound); eager: len(mailbox) <= capacity after every "
              "scheduler step; lazy: at every source advance a driving reader waits for a missing message; then "
              "the consumer drains (rows must be right) or closes."),
        note=PIPE_NOTE),
    "C05": dict(
        category="exploration", design_ref="DESIGN.md §5 C05",
        text=("Seeded search over thread schedules (random / sticky / PCT / starvation strategies) of the real "
              "strax.mailbox code under a baton-passing scheduler that owns every lock, condition, thread, future "
              "and timeout: 1-4 subscribers, 0-12 messages, capacities 1-4, lazy/eager with driver masks, futures "
              "completed by concurrent workers, explicit out-of-order numbering, late-started readers and "
              "multi-output dividers. Oracle: per-subscriber sequence equals the sent sequence, termination, no "
              "progress-by-timeout, and the capacity / read-pointer / garbage-collection invariants after every "
              "scheduler step. Sampling, not enumeration: right level for an unbounded schedule space; PCT gives "
              "a probabilistic guarantee for bugs of small pre-emption depth."),
        note=("Trusted: the scheduler shim (dst/sched.py) models RLock/Condition/Thread/Future semantics faithfully; "
              "pre-emption only at synchronisation points (all Mailbox state is accessed under its lock)."),
    ),
}
NA = {
    "C07": "pure function of in-memory arrays (Chunk/Rechunker value semantics): no schedule, clock, I/O or fault to simulate; its code runs for real inside the C01/C03/C14/C16 simulations",
    "C17": "pure numba kernels (interval primitives): functions of their arguments only, nothing for a simulator to own",
    "C18": "pure numba kernels (hit finding / data reduction): functions of their arguments only",
    "C19": "pure numba kernels (peak building / merging / splitting): functions of their arguments only",
}
PENDING = "not claimed yet: simulation check under construction in this session (see DESIGN.md §5)"
ALL = [f"C{i:02d}" for i in range(1, 20)]

def main():
    checks = []
    for pid in ALL:
        if pid not in CHECKS:
            continue
        c = CHECKS[pid]
        checks.append({
            "property_id": pid,
            "quick_cmd": f"./check {pid} --tier quick",
            "thorough_cmd": f"./check {pid} --tier thorough",
            "evidence_file": f"/verif/evidence/{pid}.json",
            "replay_cmd_template": f"./check {pid} --replay {{path}}",
            "engine": "dst",
            "level_claimed": {"category": c["category"], "text": c["text"], "design_ref": c["design_ref"]},
            "level_note": c["note"],
            "technique": c.get("technique", TECH),
        })
    na = [{"property_id": p, "reason": NA.get(p, PENDING)} for p in ALL if p not in CHECKS]
    m = {
        "version": 1,
        "setup_cmd": "./setup.sh",
        "hooks": {
            "guard": "STRAX_DST_HOOKS",
            "enable": "no source hook is needed: the simulator installs itself by assigning module-level names of strax (threading, time, os, open, concurrent.futures ...) at run time; the guard name is reserved and unused",
            "baseline_off_cmd": "cd /repo && /venv/bin/python -m pytest -ra -q -p no:cacheprovider --timeout=900 --continue-on-collection-errors",
            "source_commits": [],
            "add_only": True,
        },
        "engines": [{
            "name": "dst", "path": "/verif/dst",
            "serves_properties": sorted(CHECKS),
            "kind_free_text": "deterministic simulator: seeded baton-passing thread scheduler, discrete-event clock, in-memory file system with fault/crash injection, sim executors/futures; campaign runner with replay files and minimisation",
        }],
        "checks": checks,
        "not_applicable": na,
        "notes": "All checks: ./check <ID> --tier quick|thorough [--seed N]; VERIF_SEED / VERIF_TIER honoured. Exit 0 ok, 1 VIOLATION, 2 HARNESS-ERROR. Known findings: /verif/known_findings.json.",
    }
    with open(os.path.join(HERE, "MANIFEST.json"), "w") as f:
        json.dump(m, f, indent=1)
    print("wrote MANIFEST.json:", len(checks), "checks,", len(na), "not applicable")

if __name__ == "__main__":
    main()
