#!/bin/bash
# Confirm a seeded change produced by a sub-agent in its scratch worktree and keep it under /verif/seeded.
# usage: keep_mutant2.sh <PROP> <worktree suffix, e.g. r2> <mN in the worktree> <mN to keep it as> <tests to run with the change, e.g. "tests/test_mailbox.py tests/test_core.py">
# Confirms: patch applies on the pinned commit; demo passes without and fails with the change;
# the named existing tests still pass with the change.  (The sub-agent's full-suite log is kept too.)
set -u
P=$1; SFX=$2; M=$3; OUTM=$4; TESTS=${5:-}
WT=/tmp/wt/$P$SFX
OUT=/verif/seeded/$P-$OUTM
SRC=$WT/_out/$M
[ -f $SRC/patch.diff ] || { echo "no patch in $SRC"; exit 2; }
DEMO=$(ls $SRC/demo.py $SRC/test_demo.py 2>/dev/null | head -1)
git -C $WT checkout -q -- strax
run_demo() {
  if [[ "$DEMO" == *test_demo.py ]]; then
    (cd $WT && PYTHONPATH=$WT timeout 600 /venv/bin/python -m pytest -q -p no:cacheprovider -x $DEMO >/tmp/demo_${P}_${M}.log 2>&1); echo $?
  else
    (cd $WT && PYTHONPATH=$WT timeout 600 /venv/bin/python $DEMO >/tmp/demo_${P}_${M}.log 2>&1); echo $?
  fi
}
RC_CLEAN=$(run_demo)
git -C $WT apply $SRC/patch.diff || { echo "patch does not apply"; exit 2; }
RC_MUT=$(run_demo)
TEST_SUMMARY="not run"
if [ -n "$TESTS" ]; then
  TEST_SUMMARY=$(cd $WT && PYTHONPATH=$WT timeout 3000 /venv/bin/python -m pytest -q -p no:cacheprovider --timeout=900 $TESTS 2>&1 | tail -1)
fi
git -C $WT checkout -q -- strax
mkdir -p $OUT
cp $SRC/patch.diff $OUT/
cp $DEMO $OUT/
[ -f $SRC/notes.md ] && cp $SRC/notes.md $OUT/
AGENT_SUITE=$(grep -hE "passed|failed" $SRC/fullsuite*.log $SRC/notes.md 2>/dev/null | grep -E "[0-9]+ passed" | tail -1)
cat > $OUT/confirm.txt <<EOF
patch applies on pinned commit: yes
demo without the change: exit $RC_CLEAN (expected 0)
demo with the change:    exit $RC_MUT (expected non-zero)
existing tests run by me with the change ($TESTS): $TEST_SUMMARY
full suite as run by the sub-agent with the change: $AGENT_SUITE
EOF
cat $OUT/confirm.txt
