#!/bin/bash
# usage: run_mut.sh <name> <file-relative-to-strax> <python-expr old> <new> <check args...>
name=$1; file=$2; old=$3; new=$4; shift 4
rm -rf /tmp/mut/$name; mkdir -p /tmp/mut/$name; cp -r /repo/strax /tmp/mut/$name/strax; find /tmp/mut/$name -name __pycache__ -prune -exec rm -rf {} +
OLD="$old" NEW="$new" /venv/bin/python - <<PY
import os,sys
p='/tmp/mut/$name/strax/$file'; s=open(p).read(); old=os.environ['OLD']; new=os.environ['NEW']
assert s.count(old)>=1, ('pattern not found', old)
s=s.replace(old,new,1); open(p,'w').write(s)
PY
cd /verif && DST_STRAX_ROOT=/tmp/mut/$name DST_OUT_DIR=/tmp/mut/$name/out timeout 900 ./check "$@" 2>&1 | grep -E "VIOLATION|violation:|HARNESS|\[dst\] C" | head -4 | cut -c1-240
rm -rf /tmp/mut/$name
