#!/bin/bash
# usage: tools/soak.sh <seed> [budget_s] [procs] : every check once with VERIF_SEED=<seed>; prints verdict lines
seed=$1; budget=${2:-100}; procs=${3:-8}
for c in C01 C02 C03 C04 C05 C06 C08 C09 C10 C11 C12 C13 C14 C15 C16; do
  echo "=== $c seed=$seed"
  VERIF_SEED=$seed timeout 3000 ./check $c --tier quick --budget-s $budget --procs $procs 2>&1 | grep -E "^VIOLATION|^violation:|detail|HARNESS|KNOWN-FINDING|\[dst\] C..:" | cut -c1-400
  echo "exit=$?"
done
