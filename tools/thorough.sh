#!/bin/bash
# usage: tools/thorough.sh [budget_s per check] [seed] : every check once in its thorough tier; prints verdict lines
budget=${1:-1500}; seed=${2:-0}
for c in C01 C02 C03 C04 C05 C06 C08 C09 C10 C11 C12 C13 C14 C15 C16; do
  echo "=== $c thorough seed=$seed"
  VERIF_SEED=$seed timeout $((budget + 900)) ./check $c --tier thorough --budget-s $budget 2>&1 | grep -E "^VIOLATION|^violation:|detail|HARNESS|KNOWN-FINDING|\[dst\] C..:" | cut -c1-400
done
