#!/bin/bash
# usage: revert_fix.sh <commit> <check> [more checks...]  : run checks against a scratch copy of strax with that fix reverted
c=$1; shift
rm -rf /tmp/mut/rv_$c; mkdir -p /tmp/mut/rv_$c; cp -r /repo/strax /tmp/mut/rv_$c/strax; find /tmp/mut/rv_$c -name __pycache__ -prune -exec rm -rf {} +
(cd /tmp/mut/rv_$c && git -C /repo show $c -- strax | patch -R -p1 -s) || { echo "REVERT FAILED $c"; exit 2; }
for chk in "$@"; do
  cd /verif && DST_STRAX_ROOT=/tmp/mut/rv_$c DST_OUT_DIR=/tmp/mut/rv_$c/out timeout 900 ./check $chk --budget-s ${BUDGET:-60} 2>&1 | grep -E "^VIOLATION|violation:|HARNESS|\[dst\] C..:" | cut -c1-220 | head -3
done
rm -rf /tmp/mut/rv_$c
