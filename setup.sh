#!/bin/bash
# Offline setup: byte-compile the framework and warm the numba cache with a smoke run.
set -e
cd "$(dirname "$0")"
export PYTHONHASHSEED=0 NUMBA_CACHE_DIR="$PWD/.cache/numba"
mkdir -p .cache/numba evidence replays
/venv/bin/python -m compileall -q dst || true
timeout 900 ./check selftest-smoke
